(** C08 - inline lint filters change exactly the diagnostics they cover.  Statements only. *)
From Selene Require Import Filter.Machine Filter.Spec Filter.Facts Filter.Correct2 Filter.Correct4 Filter.Correct6 Filter.Correct7.

(** The main theorem: on every well-formed filter family (wf_ok is evaluated on every dump of the
    real traversal) the verbatim model of filter_diagnostics computes exactly the declarative
    specification: the accepted inline filter for the lint with the smallest range containing the
    diagnostic's start decides (first declared among equal ranges), else the accepted global one,
    else the diagnostic is unchanged; allow removes, warn/deny set the severity; the failures are
    exactly the unknown-lint, global-after-code and same-piece-same-lint ones, in order. *)
Theorem C08_filter_correct : forall es fc ds,
  wf_ok fc (oks es) = true ->
  filter_diagnostics es fc ds =
    Some (map ODiag (spec_diags (oks es) fc ds) ++ map OFail (spec_failures es fc)).
Proof. exact filter_correct. Qed.
Print Assumptions C08_filter_correct.

(** ... in particular the `expect("... stack is empty")` of the replay loop cannot fire *)
Theorem C08_no_underflow : forall es fc ds, wf_ok fc (oks es) = true -> filter_diagnostics es fc ds <> None.
Proof. intros es fc ds H. rewrite (filter_correct es fc ds H). discriminate. Qed.
Print Assumptions C08_no_underflow.

Theorem C08_no_filters_identity : forall es fc ds,
  oks es = [] -> filter_diagnostics es fc ds = Some (map ODiag ds ++ map OFail (errs es)).
Proof. exact no_filters_identity. Qed.
Print Assumptions C08_no_filters_identity.

(** frame for other lints, without any well-formedness assumption *)
Theorem C08_frame_other_lints : forall es fc ds outs code,
  filter_diagnostics es fc ds = Some outs ->
  (forall f, In f (oks es) -> fc_lint (fl_conf f) <> code) ->
  List.filter (fun d => str_eqb (d_code d) code)
     (flat_map (fun o => match o with ODiag d => [d] | OFail _ => [] end) outs)
  = List.filter (fun d => str_eqb (d_code d) code) (match oks es with [] => ds | _ => sort_diags ds end).
Proof. exact frame_other_lints. Qed.
Print Assumptions C08_frame_other_lints.

(** what the specification says, spelled out on the two-filter situations the property names *)
Definition mk (g : bool) (lint : string) (v : variation) (lo hi : N) : lfilter :=
  {| fl_conf := {| fc_global := g; fc_lint := lint; fc_var := v |}; fl_comment := (0, 0)%N; fl_range := (lo, hi) |}.

(** the specification on the situations the property names (concrete instances, by computation) *)
Theorem C08_spec_examples :
  (* innermost wins *)
  governing [mk false "a" VAllow 0 100; mk false "a" VDeny 10 20] "a" 15 = Some (mk false "a" VDeny 10 20) /\
  governing [mk false "a" VAllow 0 100; mk false "a" VDeny 10 20] "a" 20 = Some (mk false "a" VAllow 0 100) /\
  (* a global filter is overridden by any inline filter, and only inside its range *)
  governing [mk true "a" VAllow 0 0; mk false "a" VDeny 10 20] "a" 10 = Some (mk false "a" VDeny 10 20) /\
  governing [mk true "a" VAllow 0 0; mk false "a" VDeny 10 20] "a" 9 = Some (mk true "a" VAllow 0 0) /\
  (* other lints are not governed at all *)
  governing [mk true "a" VAllow 0 0; mk false "a" VDeny 10 20] "b" 15 = None.
Proof. vm_compute. repeat split. Qed.
Print Assumptions C08_spec_examples.

(** non-vacuity: a nested family with a same-range pair, a zero-width filter, a global and a
    rejected global satisfies the hypothesis *)
Definition ex_filters : list fentry :=
  [FOk (mk true "a" VAllow 10 40); FOk (mk false "a" VDeny 10 40); FOk (mk false "b" VWarn 10 40);
   FOk (mk false "a" VAllow 20 30); FErr "nope" (3, 9)%N; FOk (mk false "b" VAllow 50 50)].
Theorem C08_nonvacuous :
  wf_ok (Some (10, 40)%N) (oks ex_filters) = true /\
  filter_diagnostics ex_filters (Some (10, 40)%N)
    [{| d_code := "a"; d_start := 25; d_payload := 0; d_sev := SWarning |};
     {| d_code := "a"; d_start := 12; d_payload := 1; d_sev := SWarning |};
     {| d_code := "a"; d_start := 45; d_payload := 2; d_sev := SWarning |};
     {| d_code := "c"; d_start := 25; d_payload := 3; d_sev := SWarning |}] =
  Some [ODiag {| d_code := "a"; d_start := 12; d_payload := 1; d_sev := SError |};
        ODiag {| d_code := "c"; d_start := 25; d_payload := 3; d_sev := SWarning |};
        OFail (NoSuchLint "nope" (3, 9)%N)].
Proof. vm_compute. split; reflexivity. Qed.
Print Assumptions C08_nonvacuous.
