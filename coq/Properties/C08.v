(** C08 - inline lint filters change exactly the diagnostics they cover.  Statements only.
    Proved here for every input: the machine leaves every diagnostic of a lint that no accepted
    filter names exactly as it was, in place; with no accepted filter it is the identity.
    NOT yet proved (full statement kept below as a definition, evaluated on every case by the
    correspondence run and planned in DESIGN.md): machine = specification on well-formed filter
    families, i.e. "the innermost covering filter for the lint decides". *)
From Selene Require Import Filter.Machine Filter.Spec Filter.Facts.

Theorem C08_no_filters_identity : forall es fc ds,
  oks es = [] -> filter_diagnostics es fc ds = Some (map ODiag ds ++ map OFail (errs es)).
Proof. exact no_filters_identity. Qed.
Print Assumptions C08_no_filters_identity.

Theorem C08_frame_other_lints : forall es fc ds outs code,
  filter_diagnostics es fc ds = Some outs ->
  (forall f, In f (oks es) -> fc_lint (fl_conf f) <> code) ->
  List.filter (fun d => str_eqb (d_code d) code)
     (flat_map (fun o => match o with ODiag d => [d] | OFail _ => [] end) outs)
  = List.filter (fun d => str_eqb (d_code d) code) (match oks es with [] => ds | _ => sort_diags ds end).
Proof. exact frame_other_lints. Qed.
Print Assumptions C08_frame_other_lints.

(** The full statement (pending proof; evaluated as a boolean on every correspondence case). *)
Definition C08_filter_correct_statement : Prop :=
  forall es fc ds, wf_filters (oks es) = true ->
    filter_diagnostics es fc ds =
      Some (map ODiag (spec_diags (oks es) fc ds) ++ map OFail (spec_failures es fc)).
