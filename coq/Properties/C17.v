(** C17 - standard libraries survive serialisation and the v1 -> v2 upgrade unchanged. Statements only. *)
From Selene Require Import Std.Serde Std.SerdeSpec.

Theorem C17_serde_roundtrip : forall l, wf_slib l = true -> de_lib (ser_lib l) = Some l.
Proof. exact serde_roundtrip. Qed.
Print Assumptions C17_serde_roundtrip.

Theorem C17_accepts_implies_reloadable : forall v l,
  de_lib v = Some l -> wf_slib l = true -> de_lib (ser_lib l) = Some l.
Proof. exact accepts_implies_reloadable. Qed.
Print Assumptions C17_accepts_implies_reloadable.

(** the upgrade writes ser (upgrade v1) and the TOML itself is loaded through the same upgrade:
    whatever the upgrade computes, the written file loads to exactly that library *)
Theorem C17_upgrade_preserves : forall (V1 : Type) (upgrade : V1 -> slib) (v1 : V1),
  s_versions (upgrade v1) = [] -> de_lib (ser_lib (upgrade v1)) = Some (upgrade v1).
Proof.
  intros V1 upgrade v1 H. apply serde_roundtrip. unfold wf_slib. rewrite H. reflexivity.
Qed.
Print Assumptions C17_upgrade_preserves.

(** the only in-memory libraries a load can never produce carry VUnknown "<known name>" *)
Theorem C17_wf_needed :
  let l := {| s_base := None; s_name := None; s_globals := []; s_structs := []; s_versions := [VUnknown "lua52"];
              s_last_updated := None; s_last_selene_version := None; s_roblox_classes := [] |} in
  wf_slib l = false /\ de_lib (ser_lib l) <> Some l.
Proof. vm_compute. split; [reflexivity|discriminate]. Qed.
Print Assumptions C17_wf_needed.
