(** C11 — linting is total and every diagnostic is well-formed.  Statements only.
    What is proved are the places where selene itself can panic on well-formed input or compute a
    position by hand: the scope stack asserts, the filter stack, struct lookup, the `replace` pattern
    expansion, the code table, and the byte offset -> line/column conversions of the writers.  That no
    *other* unwrap/expect/indexing site fires is sampled by the correspondence run, not proved. *)
From Selene Require Import Scope.Interp Scope.Balanced Filter.Machine Filter.Spec Filter.Correct7
  Std.FindGlobal Std.FindGlobalSpec Std.TryInstead Std.TryInsteadSpec Pipeline.Location Pipeline.LocationSpec
  Generated.LintTable Generated.LintCodes Lints.Escape.

(** the `replace` patterns of deprecated entries are expanded without ever indexing out of bounds,
    whatever the library declares and however many arguments the call has *)
Theorem C11_try_instead_total : forall replace params, try_instead replace params <> Panics.
Proof. exact try_instead_total. Qed.
Print Assumptions C11_try_instead_total.

(** every code passed to Diagnostic::new / new_complete in today's lint sources (Generated/LintCodes.v)
    is the name of a registered lint (Generated/LintTable.v) *)
Theorem C11_codes_exist :
  forallb (fun fc => existsb (str_eqb (snd fc)) (map (fun x => fst (fst x)) lint_table)) lint_codes = true.
Proof. vm_compute. reflexivity. Qed.
Print Assumptions C11_codes_exist.

(** the scope walk's push/pop asserts cannot fire: the walk is balanced and never pops the root *)
Theorem C11_scope_walk_balanced : forall chunk, depth_after 1%nat (events_of_chunk chunk) = Some 1%nat.
Proof. exact chunk_balanced. Qed.
Print Assumptions C11_scope_walk_balanced.

Theorem C11_close_never_pops_root : forall chunk pre post s,
  events_of_chunk chunk = pre ++ EvClose :: post ->
  run init_st pre = Some s -> (2 <= List.length (stack s))%nat.
Proof. exact close_never_pops_root. Qed.
Print Assumptions C11_close_never_pops_root.

(** the filter stack never underflows on the ranges a traversal produces *)
Theorem C11_filter_no_underflow : forall es fc ds, wf_ok fc (oks es) = true -> filter_diagnostics es fc ds <> None.
Proof. intros es fc ds H. rewrite (filter_correct es fc ds H). discriminate. Qed.
Print Assumptions C11_filter_no_underflow.

(** a library whose struct references are all defined never reaches the struct-lookup panic ... *)
Theorem C11_find_global_total : forall l names s,
  structs_closed l = true -> find_global l names <> MissingStruct s.
Proof. exact find_global_total. Qed.
Print Assumptions C11_find_global_total.

(** ... and one that is not does (the known class T1): such a library loads and validates *)
Theorem C11_dangling_struct_refuted :
  structs_closed dangling_lib = false /\ find_global dangling_lib ["a"; "b"] = MissingStruct "Missing".
Proof. exact find_global_refuted_dangling. Qed.
Print Assumptions C11_dangling_struct_refuted.

(** the json / luacheck writers convert exactly the ranges that lie on character boundaries, and the
    luacheck loop terminates exactly on start <= end *)
Theorem C11_location_defined_iff : forall src off, location src off <> None <-> boundary src off = true.
Proof. exact location_defined_iff. Qed.
Print Assumptions C11_location_defined_iff.

Theorem C11_styles_total : forall src d,
  wf_diag src d -> forall st, exists o, emit st src d = Some o.
Proof.
  intros src d H st. destruct (styles_total_and_agree src d H) as (l & c & _ & Hall).
  destruct (Hall st) as (o & Ho & _). exists o. exact Ho.
Qed.
Print Assumptions C11_styles_total.

(** the hand-computed ranges of bad_string_escape (model: Lints/Escape.v, compared with the real lint by
    C04's run): non-empty and inside the string literal *)
Theorem C11_escape_ranges_in_bounds : forall q rb l off skip,
  scan_fits q rb l skip = true ->
  forall s e, In (s, e) (scan q rb l off skip) -> (off <= s)%nat /\ (s < e)%nat /\ (e <= off + List.length l)%nat.
Proof. exact scan_in_bounds. Qed.
Print Assumptions C11_escape_ranges_in_bounds.
