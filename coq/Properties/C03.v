(** C03 - shadowing is reported exactly when a visible same-name variable exists. Statements only. *)
From Selene Require Import Scope.Interp Scope.Balanced Scope.Spec Scope.Zones Lints.ScopeLints Scope.ShadowInv.

(** the lint reports exactly the variables whose `shadowed` is set (minus ignored names and `...`),
    with the shadowed variable's declaring identifier as secondary label *)
Theorem C03_report_iff_shadowed : forall s d sh,
  In (d, sh) (shadowing_report s) <->
  exists v sid sv, In v (vars s) /\ v_shadowed v = Some sid /\ nth_error (vars s) (N.to_nat sid) = Some sv /\
                   starts_with_underscore (t_name (v_tok v)) = false /\ str_eqb (t_name (v_tok v)) "..." = false /\
                   d = t_range (v_tok v) /\ sh = t_range (v_tok sv).
Proof.
  intros s d sh. unfold shadowing_report. rewrite in_flat_map. split.
  - intros (v & Hv & Hin). destruct (v_shadowed v) as [sid|] eqn:Es; [|destruct Hin].
    destruct (starts_with_underscore (t_name (v_tok v)) || str_eqb (t_name (v_tok v)) "...") eqn:Eo; [destruct Hin|].
    apply orb_false_iff in Eo as [E1 E2].
    destruct (nth_error (vars s) (N.to_nat sid)) as [sv|] eqn:En; [|destruct Hin].
    destruct Hin as [[= <- <-]|[]]. exists v, sid, sv. repeat split; auto.
  - intros (v & sid & sv & Hv & Es & En & E1 & E2 & -> & ->). exists v. split; [exact Hv|].
    rewrite Es, E1, E2, En. left. reflexivity.
Qed.
Print Assumptions C03_report_iff_shadowed.

(** on every run, the variable recorded as shadowed is an earlier declaration (arena order) of the same name *)
Theorem C03_shadowed_is_earlier_same_name : forall chunk s,
  scope_manager chunk = Some s ->
  forall i v sid, nth_error (vars s) i = Some v -> v_shadowed v = Some sid ->
    (N.to_nat sid < i)%nat /\ exists sv, nth_error (vars s) (N.to_nat sid) = Some sv /\ t_name (v_tok sv) = t_name (v_tok v).
Proof. exact scope_manager_shadow. Qed.
Print Assumptions C03_shadowed_is_earlier_same_name.

(** hence every shadowing diagnostic's two labels are declarations of one name, the secondary one earlier *)
Theorem C03_report_same_name : forall chunk s d sh,
  scope_manager chunk = Some s -> In (d, sh) (shadowing_report s) ->
  exists i j v sv, (j < i)%nat /\ nth_error (vars s) i = Some v /\ nth_error (vars s) j = Some sv /\
    t_name (v_tok sv) = t_name (v_tok v) /\ d = t_range (v_tok v) /\ sh = t_range (v_tok sv).
Proof.
  intros chunk s d sh Hs Hin. apply C03_report_iff_shadowed in Hin as (v & sid & sv & Hv & Es & En & _ & _ & -> & ->).
  apply In_nth_error in Hv as [i Hi]. destruct (scope_manager_shadow chunk s Hs i v sid Hi Es) as (Hlt & sv' & Hsv' & Hn).
  rewrite En in Hsv'. injection Hsv' as <-. exists i, (N.to_nat sid), v, sv. repeat split; auto.
Qed.
Print Assumptions C03_report_same_name.

(** the same for any ignore_pattern (the set of ignored names is what the pattern matches) *)
Theorem C03_report_iff_shadowed_with : forall ign s d sh,
  In (d, sh) (shadowing_report_with ign s) <->
  exists v sid sv, In v (vars s) /\ v_shadowed v = Some sid /\ nth_error (vars s) (N.to_nat sid) = Some sv /\
                   ign (t_name (v_tok v)) = false /\ str_eqb (t_name (v_tok v)) "..." = false /\
                   d = t_range (v_tok v) /\ sh = t_range (v_tok sv).
Proof.
  intros ign s d sh. unfold shadowing_report_with. rewrite in_flat_map. split.
  - intros (v & Hv & Hin). destruct (v_shadowed v) as [sid|] eqn:Es; [|destruct Hin].
    destruct (ign (t_name (v_tok v)) || str_eqb (t_name (v_tok v)) "...") eqn:Eo; [destruct Hin|].
    apply orb_false_iff in Eo as [E1 E2].
    destruct (nth_error (vars s) (N.to_nat sid)) as [sv|] eqn:En; [|destruct Hin].
    destruct Hin as [[= <- <-]|[]]. exists v, sid, sv. repeat split; auto.
  - intros (v & sid & sv & Hv & Es & En & E1 & E2 & -> & ->). exists v. split; [exact Hv|].
    rewrite Es, E1, E2, En. left. reflexivity.
Qed.
Print Assumptions C03_report_iff_shadowed_with.

Theorem C03_walk_balanced : forall chunk, depth_after 1%nat (events_of_chunk chunk) = Some 1%nat.
Proof. exact chunk_balanced. Qed.
Print Assumptions C03_walk_balanced.

Definition C03_agreement_statement : Prop :=
  forall chunk s, scope_manager chunk = Some s ->
    fst (c03_zone (occs chunk) (decls chunk) (shadowing_report s)) = 0%N.
