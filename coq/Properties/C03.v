(** C03 - shadowing is reported exactly when a visible same-name variable exists. Statements only. *)
From Selene Require Import Scope.Interp Scope.Balanced Scope.Spec Scope.Zones Lints.ScopeLints.

(** the lint reports exactly the variables whose `shadowed` is set (minus ignored names and `...`),
    with the shadowed variable's declaring identifier as secondary label *)
Theorem C03_report_iff_shadowed : forall s d sh,
  In (d, sh) (shadowing_report s) <->
  exists v sid sv, In v (vars s) /\ v_shadowed v = Some sid /\ nth_error (vars s) (N.to_nat sid) = Some sv /\
                   starts_with_underscore (t_name (v_tok v)) = false /\ str_eqb (t_name (v_tok v)) "..." = false /\
                   d = t_range (v_tok v) /\ sh = t_range (v_tok sv).
Proof.
  intros s d sh. unfold shadowing_report. rewrite in_flat_map. split.
  - intros (v & Hv & Hin). destruct (v_shadowed v) as [sid|] eqn:Es; [|destruct Hin].
    destruct (starts_with_underscore (t_name (v_tok v)) || str_eqb (t_name (v_tok v)) "...") eqn:Eo; [destruct Hin|].
    apply orb_false_iff in Eo as [E1 E2].
    destruct (nth_error (vars s) (N.to_nat sid)) as [sv|] eqn:En; [|destruct Hin].
    destruct Hin as [[= <- <-]|[]]. exists v, sid, sv. repeat split; auto.
  - intros (v & sid & sv & Hv & Es & En & E1 & E2 & -> & ->). exists v. split; [exact Hv|].
    rewrite Es, E1, E2, En. left. reflexivity.
Qed.
Print Assumptions C03_report_iff_shadowed.

Theorem C03_walk_balanced : forall chunk, depth_after 1%nat (events_of_chunk chunk) = Some 1%nat.
Proof. exact chunk_balanced. Qed.
Print Assumptions C03_walk_balanced.

Definition C03_agreement_statement : Prop :=
  forall chunk s, scope_manager chunk = Some s ->
    fst (c03_zone (occs chunk) (decls chunk) (shadowing_report s)) = 0%N.
