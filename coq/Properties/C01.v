(** C01 - undefined_variable agrees with Lua's lexical scoping rules.  Statements only.
    Proved for every syntax tree: the scope walk is balanced (its asserts cannot fire) and the lint
    reports each identifier of a qualifying reference exactly once.  The agreement of the scope
    model with Lua's scoping outside the known classes K1-K5 (C01_agreement_statement below) is
    evaluated on every case by the correspondence run; its general proof is still open. *)
From Selene Require Import Scope.Interp Scope.Balanced Scope.Spec Scope.Zones Lints.ScopeLints Lints.ScopeLintsFacts
  Scope.Fragment Scope.Agreement Scope.GFragment Scope.GAgreement.

Theorem C01_report_exactly_once : forall s roots,
  NoDup (undefined_report s roots) /\
  (forall id, In id (undefined_report s roots) <->
              exists r, In r (refs s) /\ qualifies roots r = true /\ t_range (r_tok r) = id).
Proof. exact undefined_report_exact. Qed.
Print Assumptions C01_report_exactly_once.

Theorem C01_walk_balanced : forall chunk, depth_after 1%nat (events_of_chunk chunk) = Some 1%nat.
Proof. exact chunk_balanced. Qed.
Print Assumptions C01_walk_balanced.

Theorem C01_final_stack_is_root : forall chunk s',
  run init_st (events_of_chunk chunk) = Some s' -> List.length (stack s') = 1%nat.
Proof. exact final_stack_is_root. Qed.
Print Assumptions C01_final_stack_is_root.

Theorem C01_close_never_pops_root : forall chunk pre post s,
  events_of_chunk chunk = pre ++ EvClose :: post ->
  run init_st pre = Some s -> (2 <= List.length (stack s))%nat.
Proof. exact close_never_pops_root. Qed.
Print Assumptions C01_close_never_pops_root.

(** Agreement with Lua, in the direction users rely on most, for EVERY Lua 5.1 program (the only
    requirement: no declared name is literally "..."): an identifier that Lua binds to a local variable,
    parameter, loop variable or `self` is never reported, whatever the standard library is - function
    expressions, closures walked late, multi-name locals, numeric-for bounds and surplus expressions
    (the situations of the known classes K1-K4) included.  Proved by a simulation between the model's
    walk and the Lua resolver (Scope/Sim*.v), function bodies inside expressions being replayed from the
    environment they were written in (Scope/Replay.v ... GAgreement.v).  [gok_block] and the distinctness
    of token ranges are checked on every generated case (code bit 2 / evidence). *)
Theorem C01_never_reports_locals : forall chunk roots s,
  gok_block chunk = true ->
  NoDup (map (fun o => t_range (o_tok o)) (occs chunk)) ->
  scope_manager chunk = Some s ->
  forall o d, In o (occs chunk) -> o_bind o = OLocal d -> ~ In (t_range (o_tok o)) (undefined_report s roots).
Proof. exact undefined_never_on_locals_all. Qed.
Print Assumptions C01_never_reports_locals.

(** the full statement, evaluated per case (pending proof) *)
Definition C01_agreement_statement : Prop :=
  forall chunk s roots, scope_manager chunk = Some s ->
    c01_zone (occs chunk) roots (undefined_report s roots) = (0%N, snd (c01_zone (occs chunk) roots (undefined_report s roots))).
