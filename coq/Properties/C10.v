(** C10 - configured severities relabel diagnostics without changing what is found. Statements only. *)
From Selene Require Import Pipeline.Severity Pipeline.SeveritySpec Filter.Facts Pipeline.Exit Pipeline.ExitSpec.

Theorem C10_found_independent_of_severities : forall cfg cfg' fs,
  map erase (attach cfg fs) = map erase (attach cfg' fs).
Proof. exact found_independent_of_severities. Qed.
Print Assumptions C10_found_independent_of_severities.

Theorem C10_absent_keeps_default : forall cfg lint,
  configured cfg lint = None -> sev cfg lint = default_severity lint.
Proof. exact absent_keeps_default. Qed.
Print Assumptions C10_absent_keeps_default.

Theorem C10_hcc_default_allow : sev [] "high_cyclomatic_complexity" = SAllow.
Proof. exact hcc_default_allow. Qed.
Print Assumptions C10_hcc_default_allow.

Theorem C10_configured_wins : forall cfg lint v, configured cfg lint = Some v -> sev cfg lint = to_severity v.
Proof. exact configured_wins. Qed.
Print Assumptions C10_configured_wins.

Theorem C10_relabel_commutes_with_filtering : forall g ds pending stack outs,
  replay ds pending stack = Some outs ->
  exists outs', replay (map (resev g) ds) pending stack = Some outs' /\
                map erase outs' = map erase outs /\
                Forall2 (fun o o' => o' = o \/ (o' = resev g o)) outs outs'.
Proof. exact replay_resev. Qed.
Print Assumptions C10_relabel_commutes_with_filtering.

Theorem C10_sort_ignores_severity : forall g ds, sort_diags (map (resev g) ds) = map (resev g) (sort_diags ds).
Proof. exact sort_diags_resev. Qed.
Print Assumptions C10_sort_ignores_severity.

Theorem C10_inline_beats_config : forall ds pending stack outs d,
  replay ds pending stack = Some outs -> In d outs ->
  (exists d0, In d0 ds /\ erase d0 = erase d /\
     (d = d0 \/ exists c, fc_lint c = d_code d0 /\ d_sev d = to_severity (fc_var c) /\ to_severity (fc_var c) <> SAllow)).
Proof. exact inline_beats_config. Qed.
Print Assumptions C10_inline_beats_config.

Theorem C10_allow_contributes_nothing : forall code ds pending stack outs,
  replay ds pending stack = Some outs ->
  (forall d, In d ds -> d_code d = code -> d_sev d = SAllow) ->
  Forall (fun c => fc_lint c <> code) (pushed pending) -> Forall (fun c => fc_lint c <> code) stack ->
  forall d, In d outs -> d_code d = code -> d_sev d = SAllow.
Proof. exact allow_contributes_nothing. Qed.
Print Assumptions C10_allow_contributes_nothing.

(** counts and exit status ignore Allow-severity diagnostics (CLI model of C19) *)
Theorem C10_allow_not_counted : forall c e w a a',
  check_file c (Linted e w a) = check_file c (Linted e w a').
Proof. reflexivity. Qed.
Print Assumptions C10_allow_not_counted.
