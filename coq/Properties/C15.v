(** C15 - a derived standard library overrides its base; removals remove.
    Only statements: each theorem is closed by [exact] of a lemma proved in Std/ExtendSpec.v. *)
From Selene Require Import Std.Extend Std.ExtendSpec.

Theorem C15_extend_lookup : forall d b k,
  wf_lib d = true -> wf_lib b = true ->
  present k (l_globals (extend d b)) = spec_present (l_globals d) (l_globals b) k
  /\ glookup k (l_globals (extend d b)) = spec_present (l_globals d) (l_globals b) k.
Proof. exact extend_lookup. Qed.
Print Assumptions C15_extend_lookup.

Theorem C15_extend_versions : forall d b,
  l_versions (extend d b) = spec_versions (l_versions d) (l_versions b).
Proof. exact extend_versions_spec. Qed.
Print Assumptions C15_extend_versions.

Theorem C15_extend_chain : forall first rest k,
  wf_globals first = true -> forallb wf_globals rest = true -> rest <> [] ->
  glookup k (l_globals (resolve_chain first rest)) =
    spec_chain_present (l_globals first) (map l_globals rest) k.
Proof. exact extend_chain. Qed.
Print Assumptions C15_extend_chain.

Theorem C15_extend_chain_versions : forall first rest,
  l_versions (resolve_chain first rest) =
    spec_chain_versions (l_versions first) (map l_versions rest).
Proof. exact extend_chain_versions. Qed.
Print Assumptions C15_extend_chain_versions.

Theorem C15_plus_fold_lookup : forall first rest k,
  wf_globals first = true -> forallb wf_globals rest = true ->
  glookup k (l_globals (plus_fold first rest)) =
    spec_plus_present (l_globals first) (map l_globals rest) k.
Proof. exact plus_fold_lookup. Qed.
Print Assumptions C15_plus_fold_lookup.

(** structs go the other way round: `self.structs.extend(other.structs)` lets the base's definition of a struct
    name replace the derived library's; along a chain the innermost library that defines the name decides *)
Theorem C15_extend_structs : forall first rest s,
  forallb wf_structs rest = true ->
  slookup s (l_structs (resolve_chain first rest)) = spec_chain_struct (l_structs first) (map l_structs rest) s.
Proof. exact extend_chain_structs. Qed.
Print Assumptions C15_extend_structs.

Theorem C15_structs_nonvacuous :
  wf_structs ex_sb = true /\
  slookup "S" (l_structs (extend ex_sd ex_sb)) = Some [(["base"], ex_ro)] /\
  slookup "D" (l_structs (extend ex_sd ex_sb)) = Some [(["d"], ex_ro)] /\
  slookup "B" (l_structs (extend ex_sd ex_sb)) = Some [(["b"], ex_ro)].
Proof. exact extend_structs_example. Qed.
Print Assumptions C15_structs_nonvacuous.

Theorem C15_nonvacuous :
  wf_lib ex_derived = true /\ wf_lib ex_base = true /\
  l_globals (extend ex_derived ex_base) = [(["x"], ex_fn); (["kept"; "f"], ex_ro)] /\
  l_versions (extend ex_derived ex_base) = [Lua53].
Proof. exact extend_example. Qed.
Print Assumptions C15_nonvacuous.
