(** C04 — closed-form syntactic lints fire exactly on their documented condition.  Statements only.
    Modelled and proved: divide_by_zero, compare_nan, suspicious_reverse_loop, empty_if, empty_loop,
    unbalanced_assignments, mixed_table, duplicate_keys, parenthese_conditions, constant_table_comparison,
    type_check_inside_call, the counting of mismatched_arg_count and the scan of bad_string_escape (13 of 17).
    The other four lints (if_same_then_else, ifs_same_cond, almost_swapped, multiple_statements) are covered by
    template verdicts in the correspondence run (testing, not proof). *)
From Selene Require Import Lints.Closed Lints.ClosedSpec Lints.Escape.
From Coq Require Import Lia.

(** never reported on a false condition, literals judged by value *)
Theorem C04_div0_sound : forall n, is_div0 n = true ->
  exists o l r, n = NExpr (EBinop o l r) /\ o = "/" /\ denotes_zero r = true.
Proof. exact div0_sound. Qed.
Print Assumptions C04_div0_sound.

Theorem C04_nan_sound : forall n, is_compare_nan n = true -> cond_nan n = true.
Proof. exact nan_sound. Qed.
Print Assumptions C04_nan_sound.

Theorem C04_revloop_sound : forall n, is_reverse_loop n = true -> cond_revloop n = true.
Proof. exact revloop_sound. Qed.
Print Assumptions C04_revloop_sound.

Theorem C04_revloop_never_on_hex : forall x r, (x = "x" \/ x = "X")%char -> f32_le_one (String "0" (String x r)) = false.
Proof. exact revloop_never_on_hex. Qed.
Print Assumptions C04_revloop_never_on_hex.

(** [le_one] is the comparison of the denoted value M * 10^E with 1 *)
Theorem C04_le_one_spec : forall m e,
  le_one (m, e) = true <->
  (if (0 <=? e)%Z then (m * N.pow 10 (Z.to_N e) <= 1)%N else (m <= N.pow 10 (Z.to_N (- e)))%N).
Proof. exact le_one_spec. Qed.
Print Assumptions C04_le_one_spec.

(** the canonical pattern is reported wherever in a program it occurs *)
Theorem C04_div0_canonical : forall chunk l,
  In (NExpr (EBinop "/" l (ENumber "0"))) (nodes_block chunk) -> value_is_zero l = false ->
  (1 <= n_div0 (lint_counts chunk))%nat.
Proof. exact div0_canonical. Qed.
Print Assumptions C04_div0_canonical.

Theorem C04_nan_canonical : forall chunk o v,
  (o = "==" \/ o = "~=") ->
  In (NExpr (EBinop o (EVar v) (EBinop "/" (ENumber "0") (ENumber "0")))) (nodes_block chunk) ->
  (1 <= n_nan (lint_counts chunk))%nat.
Proof. exact nan_canonical. Qed.
Print Assumptions C04_nan_canonical.

Theorem C04_revloop_canonical : forall chunk v x b,
  In (NStmt (SNumericFor v (EUnop "#" x) (ENumber "1") OENone b)) (nodes_block chunk) ->
  (1 <= n_revloop (lint_counts chunk))%nat.
Proof. exact revloop_canonical. Qed.
Print Assumptions C04_revloop_canonical.

Theorem C04_empty_loop_canonical : forall chunk c rng,
  In (NStmt (SWhile c (Block StNil LNone rng))) (nodes_block chunk) -> (1 <= n_empty_loop (lint_counts chunk))%nat.
Proof. exact empty_loop_canonical. Qed.
Print Assumptions C04_empty_loop_canonical.

Theorem C04_unbalanced_canonical : forall chunk v1 v2 v3 e,
  expression_is_call e = false -> expression_is_nil e = false -> expression_is_ellipsis e = false ->
  In (NStmt (SAssign (VsCons v1 (VsCons v2 (VsCons v3 VsNil))) (EsCons e EsNil))) (nodes_block chunk) ->
  (1 <= n_unbalanced (lint_counts chunk))%nat.
Proof. exact unbalanced_canonical. Qed.
Print Assumptions C04_unbalanced_canonical.

Theorem C04_unbalanced_spec : forall lhs rhs last_rhs front,
  rhs = front ++ [last_rhs] ->
  unbalanced lhs rhs = (Nat.ltb lhs (List.length rhs) ||
     (Nat.ltb (List.length rhs) lhs && negb (expression_is_ellipsis last_rhs || expression_is_call last_rhs || expression_is_nil last_rhs))).
Proof. exact unbalanced_spec. Qed.
Print Assumptions C04_unbalanced_spec.

(** mismatched_arg_count: reported exactly when the definition takes a fixed number of parameters and
    more syntactic arguments are written, whatever kind of expression they are *)
Theorem C04_arg_count_exact : forall ps a,
  correct_num_args (params_count ps 0) (passed a) = false <->
  exists k, params_count ps 0 = PFixed k /\ (k < syntactic_args a)%nat.
Proof. exact arg_count_exact. Qed.
Print Assumptions C04_arg_count_exact.

Theorem C04_arg_count_vararg_never : forall ps1 t a,
  correct_num_args (params_count (ps1 ++ [PrmEllipsis t]) 0) (passed a) = true.
Proof. exact arg_count_vararg_never. Qed.
Print Assumptions C04_arg_count_vararg_never.

(** table, condition and call lints *)
Theorem C04_mixed_canonical : forall chunk fs,
  In (NTable fs) (nodes_block chunk) ->
  existsb is_nokey (fields_list fs) = true -> existsb (fun f => negb (is_nokey f)) (fields_list fs) = true ->
  (1 <= n_mixed (lint_counts chunk))%nat.
Proof. exact mixed_canonical. Qed.
Print Assumptions C04_mixed_canonical.

Theorem C04_mixed_sound : forall n, is_mixed n = true -> exists fs, n = NTable fs /\ existsb is_nokey (fields_list fs) = true /\
  existsb (fun f => negb (is_nokey f)) (fields_list fs) = true.
Proof. exact mixed_sound. Qed.
Print Assumptions C04_mixed_sound.

Theorem C04_dupkeys_sound : forall fs declared index,
  no_dup_keys (field_keys fs index) declared = true -> dup_count fs declared index = 0%nat.
Proof. exact dupkeys_sound. Qed.
Print Assumptions C04_dupkeys_sound.

Theorem C04_dupkeys_canonical : forall chunk a v1 v2 rest,
  In (NTable (FsCons (FNameKey a v1) (FsCons (FNameKey a v2) rest))) (nodes_block chunk) ->
  (1 <= n_dupkeys (lint_counts chunk))%nat.
Proof. exact dupkeys_canonical. Qed.
Print Assumptions C04_dupkeys_canonical.

Theorem C04_paren_canonical : forall chunk c b eis els, In (NStmt (SIf (EParen c) b eis els)) (nodes_block chunk) ->
  (1 <= n_paren (lint_counts chunk))%nat.
Proof. exact paren_canonical. Qed.
Print Assumptions C04_paren_canonical.

Theorem C04_tablecmp_canonical : forall chunk o x fs, (o = "==" \/ o = "~=") ->
  In (NExpr (EBinop o x (ETable fs))) (nodes_block chunk) -> (1 <= n_tablecmp (lint_counts chunk))%nat.
Proof. exact tablecmp_canonical. Qed.
Print Assumptions C04_tablecmp_canonical.

Theorem C04_tablecmp_sound : forall n, is_table_comparison n = true ->
  exists o l r, n = NExpr (EBinop o l r) /\ (is_table l = true \/ is_table r = true).
Proof. exact tablecmp_sound. Qed.
Print Assumptions C04_tablecmp_sound.

Theorem C04_typecheck_canonical : forall chunk name x raw rest ss rng, t_name name = "type" ->
  In (NCall (FCall (PName name) (SsCons (SfxCall (CAnon (AParens (EsCons (EBinop "==" x (EString raw)) rest)))) ss) rng)) (nodes_block chunk) ->
  (1 <= n_typecheck (lint_counts chunk))%nat.
Proof. exact typecheck_canonical. Qed.
Print Assumptions C04_typecheck_canonical.

(** bad_string_escape: whatever the string, every reported range is non-empty, lies inside the literal
    (given that every escape match fits, which valid UTF-8 guarantees and the run checks) and starts at a
    backslash *)
Theorem C04_escape_in_bounds : forall q rb l off skip,
  scan_fits q rb l skip = true ->
  forall s e, In (s, e) (scan q rb l off skip) -> (off <= s)%nat /\ (s < e)%nat /\ (e <= off + List.length l)%nat.
Proof. exact scan_in_bounds. Qed.
Print Assumptions C04_escape_in_bounds.

Theorem C04_escape_starts_at_backslash : forall q rb l off skip s e,
  In (s, e) (scan q rb l off skip) -> nth_error l (s - off) = Some 92%N.
Proof. exact scan_starts_at_backslash. Qed.
Print Assumptions C04_escape_starts_at_backslash.
