(** C04 — closed-form syntactic lints fire exactly on their documented condition.  Statements only.
    Modelled and proved: divide_by_zero, compare_nan, suspicious_reverse_loop, empty_if, empty_loop,
    unbalanced_assignments and the counting of mismatched_arg_count.  The other ten lints of the
    property are covered by template verdicts in the correspondence run (testing, not proof). *)
From Selene Require Import Lints.Closed Lints.ClosedSpec.
From Coq Require Import Lia.

(** never reported on a false condition, literals judged by value *)
Theorem C04_div0_sound : forall n, is_div0 n = true ->
  exists o l r, n = NExpr (EBinop o l r) /\ o = "/" /\ denotes_zero r = true.
Proof. exact div0_sound. Qed.
Print Assumptions C04_div0_sound.

Theorem C04_nan_sound : forall n, is_compare_nan n = true -> cond_nan n = true.
Proof. exact nan_sound. Qed.
Print Assumptions C04_nan_sound.

Theorem C04_revloop_sound : forall n, is_reverse_loop n = true -> cond_revloop n = true.
Proof. exact revloop_sound. Qed.
Print Assumptions C04_revloop_sound.

Theorem C04_revloop_never_on_hex : forall x r, (x = "x" \/ x = "X")%char -> f32_le_one (String "0" (String x r)) = false.
Proof. exact revloop_never_on_hex. Qed.
Print Assumptions C04_revloop_never_on_hex.

(** [le_one] is the comparison of the denoted value M * 10^E with 1 *)
Theorem C04_le_one_spec : forall m e,
  le_one (m, e) = true <->
  (if (0 <=? e)%Z then (m * N.pow 10 (Z.to_N e) <= 1)%N else (m <= N.pow 10 (Z.to_N (- e)))%N).
Proof. exact le_one_spec. Qed.
Print Assumptions C04_le_one_spec.

(** the canonical pattern is reported wherever in a program it occurs *)
Theorem C04_div0_canonical : forall chunk l,
  In (NExpr (EBinop "/" l (ENumber "0"))) (nodes_block chunk) -> value_is_zero l = false ->
  (1 <= n_div0 (lint_counts chunk))%nat.
Proof. exact div0_canonical. Qed.
Print Assumptions C04_div0_canonical.

Theorem C04_nan_canonical : forall chunk o v,
  (o = "==" \/ o = "~=") ->
  In (NExpr (EBinop o (EVar v) (EBinop "/" (ENumber "0") (ENumber "0")))) (nodes_block chunk) ->
  (1 <= n_nan (lint_counts chunk))%nat.
Proof. exact nan_canonical. Qed.
Print Assumptions C04_nan_canonical.

Theorem C04_revloop_canonical : forall chunk v x b,
  In (NStmt (SNumericFor v (EUnop "#" x) (ENumber "1") OENone b)) (nodes_block chunk) ->
  (1 <= n_revloop (lint_counts chunk))%nat.
Proof. exact revloop_canonical. Qed.
Print Assumptions C04_revloop_canonical.

Theorem C04_empty_loop_canonical : forall chunk c rng,
  In (NStmt (SWhile c (Block StNil LNone rng))) (nodes_block chunk) -> (1 <= n_empty_loop (lint_counts chunk))%nat.
Proof. exact empty_loop_canonical. Qed.
Print Assumptions C04_empty_loop_canonical.

Theorem C04_unbalanced_canonical : forall chunk v1 v2 v3 e,
  expression_is_call e = false -> expression_is_nil e = false -> expression_is_ellipsis e = false ->
  In (NStmt (SAssign (VsCons v1 (VsCons v2 (VsCons v3 VsNil))) (EsCons e EsNil))) (nodes_block chunk) ->
  (1 <= n_unbalanced (lint_counts chunk))%nat.
Proof. exact unbalanced_canonical. Qed.
Print Assumptions C04_unbalanced_canonical.

Theorem C04_unbalanced_spec : forall lhs rhs last_rhs front,
  rhs = front ++ [last_rhs] ->
  unbalanced lhs rhs = (Nat.ltb lhs (List.length rhs) ||
     (Nat.ltb (List.length rhs) lhs && negb (expression_is_ellipsis last_rhs || expression_is_call last_rhs || expression_is_nil last_rhs))).
Proof. exact unbalanced_spec. Qed.
Print Assumptions C04_unbalanced_spec.

(** mismatched_arg_count: reported exactly when the definition takes a fixed number of parameters and
    more syntactic arguments are written, whatever kind of expression they are *)
Theorem C04_arg_count_exact : forall ps a,
  correct_num_args (params_count ps 0) (passed a) = false <->
  exists k, params_count ps 0 = PFixed k /\ (k < syntactic_args a)%nat.
Proof. exact arg_count_exact. Qed.
Print Assumptions C04_arg_count_exact.

Theorem C04_arg_count_vararg_never : forall ps1 t a,
  correct_num_args (params_count (ps1 ++ [PrmEllipsis t]) 0) (passed a) = true.
Proof. exact arg_count_vararg_never. Qed.
Print Assumptions C04_arg_count_vararg_never.
