(** C04 — closed-form syntactic lints fire exactly on their documented condition.  Statements only.
    Modelled and proved: divide_by_zero, compare_nan, suspicious_reverse_loop, empty_if, empty_loop,
    unbalanced_assignments, mixed_table, duplicate_keys, parenthese_conditions, constant_table_comparison,
    type_check_inside_call, the counting of mismatched_arg_count and the scan of bad_string_escape (13 of 17).
    The other four lints (if_same_then_else, ifs_same_cond, almost_swapped, multiple_statements) are covered by
    template verdicts in the correspondence run (testing, not proof). *)
From Selene Require Import Lints.Closed Lints.ClosedSpec Lints.Escape Lints.Same Lints.SameSpec Lints.Lines.
From Coq Require Import Lia.

(** never reported on a false condition, literals judged by value *)
Theorem C04_div0_sound : forall n, is_div0 n = true ->
  exists o l r, n = NExpr (EBinop o l r) /\ o = "/" /\ denotes_zero r = true.
Proof. exact div0_sound. Qed.
Print Assumptions C04_div0_sound.

Theorem C04_nan_sound : forall n, is_compare_nan n = true -> cond_nan n = true.
Proof. exact nan_sound. Qed.
Print Assumptions C04_nan_sound.

Theorem C04_revloop_sound : forall n, is_reverse_loop n = true -> cond_revloop n = true.
Proof. exact revloop_sound. Qed.
Print Assumptions C04_revloop_sound.

Theorem C04_revloop_never_on_hex : forall x r, (x = "x" \/ x = "X")%char -> f32_le_one (String "0" (String x r)) = false.
Proof. exact revloop_never_on_hex. Qed.
Print Assumptions C04_revloop_never_on_hex.

(** [le_one] is the comparison of the denoted value M * 10^E with 1 *)
Theorem C04_le_one_spec : forall m e,
  le_one (m, e) = true <->
  (if (0 <=? e)%Z then (m * N.pow 10 (Z.to_N e) <= 1)%N else (m <= N.pow 10 (Z.to_N (- e)))%N).
Proof. exact le_one_spec. Qed.
Print Assumptions C04_le_one_spec.

(** the canonical pattern is reported wherever in a program it occurs *)
Theorem C04_div0_canonical : forall chunk l,
  In (NExpr (EBinop "/" l (ENumber "0"))) (nodes_block chunk) -> value_is_zero l = false ->
  (1 <= n_div0 (lint_counts chunk))%nat.
Proof. exact div0_canonical. Qed.
Print Assumptions C04_div0_canonical.

Theorem C04_nan_canonical : forall chunk o v,
  (o = "==" \/ o = "~=") ->
  In (NExpr (EBinop o (EVar v) (EBinop "/" (ENumber "0") (ENumber "0")))) (nodes_block chunk) ->
  (1 <= n_nan (lint_counts chunk))%nat.
Proof. exact nan_canonical. Qed.
Print Assumptions C04_nan_canonical.

Theorem C04_revloop_canonical : forall chunk v x b,
  In (NStmt (SNumericFor v (EUnop "#" x) (ENumber "1") OENone b)) (nodes_block chunk) ->
  (1 <= n_revloop (lint_counts chunk))%nat.
Proof. exact revloop_canonical. Qed.
Print Assumptions C04_revloop_canonical.

Theorem C04_empty_loop_canonical : forall chunk c rng,
  In (NStmt (SWhile c (Block StNil LNone rng))) (nodes_block chunk) -> (1 <= n_empty_loop (lint_counts chunk))%nat.
Proof. exact empty_loop_canonical. Qed.
Print Assumptions C04_empty_loop_canonical.

Theorem C04_unbalanced_canonical : forall chunk v1 v2 v3 e,
  expression_is_call e = false -> expression_is_nil e = false -> expression_is_ellipsis e = false ->
  In (NStmt (SAssign (VsCons v1 (VsCons v2 (VsCons v3 VsNil))) (EsCons e EsNil))) (nodes_block chunk) ->
  (1 <= n_unbalanced (lint_counts chunk))%nat.
Proof. exact unbalanced_canonical. Qed.
Print Assumptions C04_unbalanced_canonical.

Theorem C04_unbalanced_spec : forall lhs rhs last_rhs front,
  rhs = front ++ [last_rhs] ->
  unbalanced lhs rhs = (Nat.ltb lhs (List.length rhs) ||
     (Nat.ltb (List.length rhs) lhs && negb (expression_is_ellipsis last_rhs || expression_is_call last_rhs || expression_is_nil last_rhs))).
Proof. exact unbalanced_spec. Qed.
Print Assumptions C04_unbalanced_spec.

(** mismatched_arg_count: reported exactly when the definition takes a fixed number of parameters and
    more syntactic arguments are written, whatever kind of expression they are *)
Theorem C04_arg_count_exact : forall ps a,
  correct_num_args (params_count ps 0) (passed a) = false <->
  exists k, params_count ps 0 = PFixed k /\ (k < syntactic_args a)%nat.
Proof. exact arg_count_exact. Qed.
Print Assumptions C04_arg_count_exact.

Theorem C04_arg_count_vararg_never : forall ps1 t a,
  correct_num_args (params_count (ps1 ++ [PrmEllipsis t]) 0) (passed a) = true.
Proof. exact arg_count_vararg_never. Qed.
Print Assumptions C04_arg_count_vararg_never.

(** table, condition and call lints *)
Theorem C04_mixed_canonical : forall chunk fs,
  In (NTable fs) (nodes_block chunk) ->
  existsb is_nokey (fields_list fs) = true -> existsb (fun f => negb (is_nokey f)) (fields_list fs) = true ->
  (1 <= n_mixed (lint_counts chunk))%nat.
Proof. exact mixed_canonical. Qed.
Print Assumptions C04_mixed_canonical.

Theorem C04_mixed_sound : forall n, is_mixed n = true -> exists fs, n = NTable fs /\ existsb is_nokey (fields_list fs) = true /\
  existsb (fun f => negb (is_nokey f)) (fields_list fs) = true.
Proof. exact mixed_sound. Qed.
Print Assumptions C04_mixed_sound.

Theorem C04_dupkeys_sound : forall fs declared index,
  no_dup_keys (field_keys fs index) declared = true -> dup_count fs declared index = 0%nat.
Proof. exact dupkeys_sound. Qed.
Print Assumptions C04_dupkeys_sound.

Theorem C04_dupkeys_canonical : forall chunk a v1 v2 rest,
  In (NTable (FsCons (FNameKey a v1) (FsCons (FNameKey a v2) rest))) (nodes_block chunk) ->
  (1 <= n_dupkeys (lint_counts chunk))%nat.
Proof. exact dupkeys_canonical. Qed.
Print Assumptions C04_dupkeys_canonical.

Theorem C04_paren_canonical : forall chunk c b eis els, In (NStmt (SIf (EParen c) b eis els)) (nodes_block chunk) ->
  (1 <= n_paren (lint_counts chunk))%nat.
Proof. exact paren_canonical. Qed.
Print Assumptions C04_paren_canonical.

Theorem C04_tablecmp_canonical : forall chunk o x fs, (o = "==" \/ o = "~=") ->
  In (NExpr (EBinop o x (ETable fs))) (nodes_block chunk) -> (1 <= n_tablecmp (lint_counts chunk))%nat.
Proof. exact tablecmp_canonical. Qed.
Print Assumptions C04_tablecmp_canonical.

Theorem C04_tablecmp_sound : forall n, is_table_comparison n = true ->
  exists o l r, n = NExpr (EBinop o l r) /\ (is_table l = true \/ is_table r = true).
Proof. exact tablecmp_sound. Qed.
Print Assumptions C04_tablecmp_sound.

Theorem C04_typecheck_canonical : forall chunk name x raw rest ss rng, t_name name = "type" ->
  In (NCall (FCall (PName name) (SsCons (SfxCall (CAnon (AParens (EsCons (EBinop "==" x (EString raw)) rest)))) ss) rng)) (nodes_block chunk) ->
  (1 <= n_typecheck (lint_counts chunk))%nat.
Proof. exact typecheck_canonical. Qed.
Print Assumptions C04_typecheck_canonical.

(** bad_string_escape: whatever the string, every reported range is non-empty, lies inside the literal
    (given that every escape match fits, which valid UTF-8 guarantees and the run checks) and starts at a
    backslash *)
Theorem C04_escape_in_bounds : forall q rb l off skip,
  scan_fits q rb l skip = true ->
  forall s e, In (s, e) (scan q rb l off skip) -> (off <= s)%nat /\ (s < e)%nat /\ (e <= off + List.length l)%nat.
Proof. exact scan_in_bounds. Qed.
Print Assumptions C04_escape_in_bounds.

Theorem C04_escape_starts_at_backslash : forall q rb l off skip s e,
  In (s, e) (scan q rb l off skip) -> nth_error l (s - off) = Some 92%N.
Proof. exact scan_starts_at_backslash. Qed.
Print Assumptions C04_escape_starts_at_backslash.

(** ** the "same text" lints (Lints/Same.v): ifs_same_cond, if_same_then_else, almost_swapped *)

(** has_side_effects answers exactly "evaluating this performs a call" (function bodies excluded) *)
Theorem C04_side_effects_exact : forall e, se_expr e = performs_call e.
Proof. exact se_expr_exact. Qed.
Print Assumptions C04_side_effects_exact.

Theorem C04_same_cond_sound : forall n c o,
  In (c, o) (same_cond_reports n) ->
  exists c0 b eis els pre post, n = NStmt (SIf c0 b eis els) /\
    c0 :: elseif_conds eis = pre ++ c :: post /\ In o pre /\
    tx_expr o = tx_expr c /\ performs_call c = false /\ performs_call o = false.
Proof. exact same_cond_sound. Qed.
Print Assumptions C04_same_cond_sound.

Theorem C04_same_cond_exact : forall n, List.length (same_cond_reports n) = spec_same_cond n.
Proof. exact same_cond_exact. Qed.
Print Assumptions C04_same_cond_exact.

Theorem C04_same_cond_canonical : forall chunk c b c' b' r els,
  In (NStmt (SIf c b (EiCons c' b' r) els)) (nodes_block chunk) ->
  tx_expr c = tx_expr c' -> se_expr c = false -> se_expr c' = false ->
  (1 <= n_same_cond (same_lint_counts chunk))%nat.
Proof. exact same_cond_canonical. Qed.
Print Assumptions C04_same_cond_canonical.

Theorem C04_same_block_sound : forall n b o,
  In (b, o) (same_block_reports n) ->
  exists c0 b0 eis els pre post, n = NStmt (SIf c0 b0 eis els) /\
    if_blocks b0 eis els = pre ++ b :: post /\ In o pre /\ tx_block o = tx_block b /\ block_has_stmts b = true.
Proof. exact same_block_sound. Qed.
Print Assumptions C04_same_block_sound.

Theorem C04_same_block_exact : forall n, List.length (same_block_reports n) = spec_same_block n.
Proof. exact same_block_exact. Qed.
Print Assumptions C04_same_block_exact.

Theorem C04_same_block_canonical : forall chunk c b eis b',
  In (NStmt (SIf c b eis (OBSome b'))) (nodes_block chunk) ->
  tx_block b = tx_block b' -> block_has_stmts b' = true ->
  (1 <= n_same_block (same_lint_counts chunk))%nat.
Proof. exact same_block_canonical. Qed.
Print Assumptions C04_same_block_canonical.

Theorem C04_swapped_sound : forall b n0 n1,
  In (n0, n1) (swaps_of_block b) ->
  exists ss l rng pre v1 e1 v2 e2 post, b = Block ss l rng /\
    stmts_list ss = pre ++ assign1 v1 e1 :: assign1 v2 e2 :: post /\
    n0 = text (tx_var v1) /\ n1 = text (tx_expr e1) /\ tx_expr e2 = tx_var v1 /\ tx_var v2 = tx_expr e1.
Proof. exact swapped_sound. Qed.
Print Assumptions C04_swapped_sound.

Theorem C04_swapped_canonical : forall chunk ss l rng pre v1 e1 v2 e2 post,
  In (Block ss l rng) (all_blocks chunk) ->
  stmts_list ss = pre ++ assign1 v1 e1 :: assign1 v2 e2 :: post ->
  se_var v1 = false -> se_var v2 = false -> tx_expr e2 = tx_var v1 -> tx_var v2 = tx_expr e1 ->
  (1 <= n_swapped (same_lint_counts chunk))%nat.
Proof. exact swapped_canonical. Qed.
Print Assumptions C04_swapped_canonical.

(** ** multiple_statements (Lints/Lines.v) *)
Theorem C04_lines_sound : forall cfg evs id,
  In id (reported (lines_run cfg evs)) ->
  exists pre e post e0, evs = pre ++ e :: post /\ sv_id e = id /\ In e0 pre /\ sv_line e0 = sv_line e.
Proof. exact lines_sound. Qed.
Print Assumptions C04_lines_sound.

Theorem C04_lines_canonical : forall cfg pre e1 mid1 e2 mid2 e3 post,
  not_if e1 -> not_if e2 -> not_if e3 -> Forall not_if mid1 -> Forall not_if mid2 ->
  sv_line e2 = sv_line e1 -> sv_line e3 = sv_line e1 ->
  In (sv_id e3) (reported (lines_run cfg (pre ++ e1 :: mid1 ++ e2 :: mid2 ++ e3 :: post))).
Proof. exact lines_canonical. Qed.
Print Assumptions C04_lines_canonical.

Theorem C04_lines_deny_complete : forall pre e post e0,
  In e0 pre -> sv_line e0 = sv_line e -> In (sv_id e) (reported (lines_run ODeny (pre ++ e :: post))).
Proof. exact lines_deny_complete. Qed.
Print Assumptions C04_lines_deny_complete.

Theorem C04_must_report_sound : forall cfg evs id, In id (must_report evs) -> In id (reported (lines_run cfg evs)).
Proof. exact must_report_sound. Qed.
Print Assumptions C04_must_report_sound.
