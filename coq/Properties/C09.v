(** C09 - invalid lint filters are reported and suppress nothing. Statements only. *)
From Selene Require Import Filter.Machine Filter.Spec Filter.Comment Filter.Facts Filter.Correct6 Filter.Correct7.

Theorem C09_unknown_lint_reported : forall es fc ds outs lint comment,
  filter_diagnostics es fc ds = Some outs -> In (FErr lint comment) es ->
  In (OFail (NoSuchLint lint comment)) outs.
Proof. exact unknown_lint_reported. Qed.
Print Assumptions C09_unknown_lint_reported.

Theorem C09_global_after_code_reported : forall es ds outs f code,
  filter_diagnostics es (Some code) ds = Some outs -> In (FOk f) es ->
  rejected_global (Some code) f = true ->
  In (OFail (GlobalAfterCode (fl_comment f) code)) outs.
Proof. exact global_after_code_reported. Qed.
Print Assumptions C09_global_after_code_reported.

Theorem C09_conflict_reported : forall fc st e f,
  rejected_global fc f = false ->
  b_conflicting st = Some (fl_range f, [e]) ->
  fc_lint (fl_conf e) = fc_lint (fl_conf f) -> fc_global (fl_conf e) = fc_global (fl_conf f) ->
  In (Conflict (fl_comment f) (fl_comment e)) (b_failures (add_filter fc st f)).
Proof. exact conflict_reported. Qed.
Print Assumptions C09_conflict_reported.

Theorem C09_rejected_global_inert : forall fc fs st st',
  same_machine st st' ->
  same_machine (fold_left (add_filter fc) fs st) (fold_left (add_filter fc) (live fc fs) st').
Proof. exact rejected_global_inert. Qed.
Print Assumptions C09_rejected_global_inert.

Theorem C09_malformed_inert : forall lints range s e line,
  parse_comment line = None -> visit_comment lints range (s, e, [line]) = Some [].
Proof. exact malformed_inert. Qed.
Print Assumptions C09_malformed_inert.

(** all three kinds together, exactly and in order: the failures the machine emits are those the
    specification lists (unknown lint; global after code; same piece of code, same kind, same lint) *)
Theorem C09_failures_exact : forall fc fs pre,
  contigL (live fc fs) = true ->
  b_failures (fold_left (add_filter fc) fs
                {| b_instrs := []; b_globals := []; b_conflicting := None; b_failures := pre |})
  = pre ++ spec_failures_from fc [] fs.
Proof. exact failures_correct. Qed.
Print Assumptions C09_failures_exact.

(** a rejected (conflicting) filter never decides a diagnostic: the diagnostics are those of the
    specification, which only consults accepted filters (C08's main theorem) *)
Theorem C09_rejected_filters_decide_nothing : forall es fc ds,
  wf_ok fc (oks es) = true ->
  filter_diagnostics es fc ds =
    Some (map ODiag (spec_diags (oks es) fc ds) ++ map OFail (spec_failures es fc)).
Proof. exact filter_correct. Qed.
Print Assumptions C09_rejected_filters_decide_nothing.
