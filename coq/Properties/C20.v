(** C20 — every display style reports the same diagnostics, in parseable form.
    Statements only; proofs are in Pipeline/LocationSpec.v. *)
From Coq Require Import Lia.
From Selene Require Import Pipeline.Location Pipeline.LocationSpec.
Open Scope N_scope.

(** json/json2 (and luacheck) can print a position exactly when it is a character boundary of the text *)
Theorem C20_location_defined_iff : forall src off,
  location src off <> None <-> boundary src off = true.
Proof. exact location_defined_iff. Qed.
Print Assumptions C20_location_defined_iff.

(** the (line, column) printed for a byte offset leads back to that offset: offsets and line/column
    agree with the source text *)
Theorem C20_location_inverse : forall src off l c,
  wf_text src = true -> location src off = Some (l, c) -> offset_of src l c = Some off.
Proof. exact location_inverse. Qed.
Print Assumptions C20_location_inverse.

Theorem C20_location_injective : forall src o1 o2 lc,
  wf_text src = true -> location src o1 = Some lc -> location src o2 = Some lc -> o1 = o2.
Proof. exact location_injective. Qed.
Print Assumptions C20_location_injective.

(** the line printed is the number of newlines before the offset *)
Theorem C20_location_line : forall src off l c, location src off = Some (l, c) -> l = count_nl src off.
Proof. exact location_line. Qed.
Print Assumptions C20_location_line.

(** on a diagnostic whose range is well-formed no style fails and all show the same
    (lint, severity, message, start line, start column) first *)
Theorem C20_styles_total_and_agree : forall src d,
  wf_diag src d ->
  exists l c, location src (d_start d) = Some (l, c) /\
    forall st, exists o, emit st src d = Some o /\ key o = Some (mk d (l, c)).
Proof. exact styles_total_and_agree. Qed.
Print Assumptions C20_styles_total_and_agree.

(** luacheck output: the diagnostic once per spanned line, later lines at column 1; the loop terminates *)
Theorem C20_luacheck_lines : forall src d l c el ec,
  d_parse d = false -> location src (d_start d) = Some (l, c) -> location src (d_end d) = Some (el, ec) -> l <= el ->
  emit Luacheck src d = Some (mk d (l, c) :: map (fun i => mk d (l + 1 + N.of_nat i, 0)) (seq 0 (N.to_nat (el - l)))).
Proof. exact luacheck_lines. Qed.
Print Assumptions C20_luacheck_lines.

(** ... and never terminates on a reversed range, whatever the fuel *)
Theorem C20_luacheck_reversed_diverges : forall fuel sl sc el, el < sl -> lc_loop fuel sl sc el = None.
Proof. exact lc_loop_reversed. Qed.
Print Assumptions C20_luacheck_reversed_diverges.

(** json fails exactly on a range with an end that is not a character boundary (the known class T2) *)
Theorem C20_json_fails_iff : forall src d,
  emit Json src d = None <-> (boundary src (d_start d) = false \/ boundary src (d_end d) = false).
Proof. exact json_fails_iff. Qed.
Print Assumptions C20_json_fails_iff.

(** premises are satisfiable: a two-line text with a non-ASCII character before the range *)
Example C20_nonvacuous :
  let src := [195; 169; 10; 120; 32; 61; 10; 49]%N in
  wf_text src = true /\ wf_diag src {| d_code := 0; d_sev := 0; d_msg := 0; d_start := 3; d_end := 8; d_parse := false |} /\
  location src 3 = Some (1, 0) /\ location src 8 = Some (2, 1) /\ location src 1 = None /\ location src 2 = Some (0, 1).
Proof. cbv zeta. unfold wf_diag. cbn [d_start d_end]. repeat split; try (vm_compute; reflexivity). lia. Qed.
