(** C02 - unused_variable never flags a variable that is read. Statements only.
    The classification of occurrences (read / write / extend, per-variable reference lists) is part
    of the scope model, tied to the real ScopeManager reference by reference; the zone statement is
    evaluated per case (pending proof). *)
From Selene Require Import Scope.Interp Scope.Balanced Scope.Spec Scope.Zones.

Theorem C02_walk_balanced : forall chunk, depth_after 1%nat (events_of_chunk chunk) = Some 1%nat.
Proof. exact chunk_balanced. Qed.
Print Assumptions C02_walk_balanced.

Definition C02_agreement_statement : Prop :=
  forall chunk roots flagged captured, 
    fst (c02_zone (occs chunk) (decls chunk) roots flagged captured) = 0%N.
