(** C02 - unused_variable never flags a variable that is read. Statements only.
    The classification of occurrences (read / write / extend, per-variable reference lists) is part
    of the scope model, tied to the real ScopeManager reference by reference; the zone statement is
    evaluated per case (pending proof). *)
From Selene Require Import Scope.Interp Scope.Balanced Scope.Spec Scope.Zones Scope.RefsInv Lints.Unused Lints.UnusedSpec.

Theorem C02_walk_balanced : forall chunk, depth_after 1%nat (events_of_chunk chunk) = Some 1%nat.
Proof. exact chunk_balanced. Qed.
Print Assumptions C02_walk_balanced.

(** what every run keeps true of the two arenas: a reference reads or writes; one that reads comes from a
    read event of its name; the references listed under a variable exist and carry its name *)
Theorem C02_arenas_consistent : forall chunk s,
  scope_manager chunk = Some s -> arenas_ok (events_of_chunk chunk) s.
Proof. exact scope_manager_ok. Qed.
Print Assumptions C02_arenas_consistent.

(** the lint (Lints/Unused.v) reports a variable iff it is not exempt and none of its references is
    analysed as a read *)
Theorem C02_reported_iff : forall cfg l s chunk v,
  var_reported cfg l s chunk v = true <->
  var_skipped cfg l v = false /\ (v_self v && u_allow_self cfg = false) /\
  forall a, In a (var_analysis l s chunk v) -> is_read a = false.
Proof. exact reported_iff. Qed.
Print Assumptions C02_reported_iff.

(** never flagged when read: any reading reference of a variable that was not initialised with a table
    constructor; for those that were, any reading reference that is not a bare argument of a call
    statement, or is one of a call to a script-defined function *)
Theorem C02_read_is_a_use : forall cfg l s chunk v i r,
  is_static_var chunk v = false -> In (i, r) (refs_of (refs s) v) -> r_read r = true ->
  var_reported cfg l s chunk v = false.
Proof. exact read_is_a_use. Qed.
Print Assumptions C02_read_is_a_use.

Theorem C02_plain_read_is_a_use : forall cfg l s chunk v i r,
  In (i, r) (refs_of (refs s) v) -> r_read r = true -> r_write r = None ->
  attr_of (refs s) (call_attrs chunk) i = None ->
  var_reported cfg l s chunk v = false.
Proof. exact plain_read_is_a_use. Qed.
Print Assumptions C02_plain_read_is_a_use.

Theorem C02_script_call_argument_is_a_use : forall cfg l s chunk v i r ca j init vid,
  In (i, r) (refs_of (refs s) v) -> r_read r = true -> r_write r = None ->
  attr_of (refs s) (call_attrs chunk) i = Some ca ->
  ref_at (refs s) (ca_start ca) = Some j -> nth_error (refs s) j = Some init -> r_resolved init = Some vid ->
  var_reported cfg l s chunk v = false.
Proof. exact script_call_argument_is_a_use. Qed.
Print Assumptions C02_script_call_argument_is_a_use.

(** always flagged when only written, in particular when its name is never read anywhere in the file *)
Theorem C02_only_written_is_reported : forall cfg l s chunk v,
  var_skipped cfg l v = false -> (v_self v && u_allow_self cfg = false) ->
  (forall i r, In (i, r) (refs_of (refs s) v) -> r_read r = false /\ r_write r <> None) ->
  var_reported cfg l s chunk v = true.
Proof. exact only_written_is_reported. Qed.
Print Assumptions C02_only_written_is_reported.

Theorem C02_never_read_is_reported : forall cfg l chunk s v,
  scope_manager chunk = Some s -> In v (Interp.vars s) ->
  (forall t, In (EvRead t) (events_of_chunk chunk) -> t_name t <> t_name (v_tok v)) ->
  var_skipped cfg l v = false -> (v_self v && u_allow_self cfg = false) ->
  var_reported cfg l s chunk v = true.
Proof. exact never_read_is_reported. Qed.
Print Assumptions C02_never_read_is_reported.

Definition C02_agreement_statement : Prop :=
  forall chunk roots flagged captured ignored allow_self,
    fst (c02_zone (occs chunk) (decls chunk) roots flagged captured ignored allow_self) = 0%N.
