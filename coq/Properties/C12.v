(** C12 — checking a file is a deterministic pure function of (config, library, source).
    Statements only; proofs are in Pipeline/DeterminismSpec.v. *)
From Coq Require Import Sorting.Permutation.
From Selene Require Import Pipeline.Determinism Pipeline.DeterminismSpec.

(** every place in /repo (today's source, Generated/SharedSites.v) where state outlives a call or where an
    order can come from hashing falls into a class covered by the theorems below *)
Theorem C12_all_sites_classified : unclassified = [].
Proof. exact all_sites_classified. Qed.
Print Assumptions C12_all_sites_classified.

(** calls through one shared checker, in any order and interleaved with other threads' cache accesses,
    each return what a fresh checker returns *)
Theorem C12_run_pure : forall (Lib Tree File Diags : Type) (build : Lib -> Tree) (lint_all : Lib -> Tree -> File -> Diags)
  lib ops c, Inv build lib c ->
  fst (run build lint_all lib c ops) = map (pure_result build lint_all lib) ops /\ Inv build lib (snd (run build lint_all lib c ops)).
Proof. intros. apply run_pure. assumption. Qed.
Print Assumptions C12_run_pure.

Theorem C12_history_independent : forall (Lib Tree File Diags : Type) (build : Lib -> Tree) (lint_all : Lib -> Tree -> File -> Diags)
  lib hist f,
  fst (test_on build lint_all lib (snd (run build lint_all lib None hist)) f) = fst (test_on build lint_all lib None f).
Proof. intros. apply history_independent. Qed.
Print Assumptions C12_history_independent.

Theorem C12_schedule_independent : forall (Lib Tree File Diags : Type) (build : Lib -> Tree) (lint_all : Lib -> Tree -> File -> Diags)
  lib ops1 ops2, Permutation ops1 ops2 ->
  Permutation (fst (run build lint_all lib None ops1)) (fst (run build lint_all lib None ops2)).
Proof. intros. apply schedule_independent. assumption. Qed.
Print Assumptions C12_schedule_independent.

(** the order a hash table yields its entries in does not survive a sort on distinct keys, nor a count *)
Theorem C12_sort_erases_order : forall (A : Type) (key : A -> N) l1 l2,
  Permutation l1 l2 -> NoDup (map key l1) -> isort key l1 = isort key l2.
Proof. intros. apply sort_erases_order; assumption. Qed.
Print Assumptions C12_sort_erases_order.

Theorem C12_count_erases_order : forall (A : Type) (p : A -> bool) l1 l2,
  Permutation l1 l2 -> List.length (filter p l1) = List.length (filter p l2).
Proof. intros. apply count_erases_order. assumption. Qed.
Print Assumptions C12_count_erases_order.

Example C12_nonvacuous :
  isort (fun x : N => x) [3; 1; 2]%N = isort (fun x : N => x) [2; 3; 1]%N /\ List.length sites <> 0%nat.
Proof. split; [reflexivity|discriminate]. Qed.
