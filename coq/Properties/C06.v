(** C06 - standard-library name lookup follows the documented resolution rules. Statements only. *)
From Selene Require Import Std.FindGlobal Std.FieldAccess Std.FindGlobalSpec.
From Coq Require Import Permutation.

Theorem C06_explicit_wins : forall l names f,
  glookup names (l_globals l) = Some f -> find_global l names = Found f.
Proof. exact explicit_wins. Qed.
Print Assumptions C06_explicit_wins.

Theorem C06_explicit_beats_wildcard : forall m p n,
  node_exists m (p ++ [n]) = true -> get_seg m p n = Some (p ++ [n]).
Proof. exact explicit_beats_wildcard. Qed.
Print Assumptions C06_explicit_beats_wildcard.

Theorem C06_wildcard_fallback : forall m p n,
  node_exists m (p ++ [n]) = false -> node_exists m (p ++ ["*"]) = true -> get_seg m p n = Some (p ++ ["*"]).
Proof. exact wildcard_fallback. Qed.
Print Assumptions C06_wildcard_fallback.

Theorem C06_no_segment_absent : forall structs m p n rest,
  node_exists m (p ++ [n]) = false -> node_exists m (p ++ ["*"]) = false ->
  walk structs m p (n :: rest) = NotFound.
Proof. exact no_segment_absent. Qed.
Print Assumptions C06_no_segment_absent.

Theorem C06_any_absorbs : forall structs m p n r rest q,
  get_seg m p n = Some q -> f_kind (node_field m q) = FAny ->
  walk structs m p (n :: r :: rest) = Found (node_field m q).
Proof. exact any_absorbs. Qed.
Print Assumptions C06_any_absorbs.

Theorem C06_struct_continues : forall structs m p n r rest q s sm,
  get_seg m p n = Some q -> f_kind (node_field m q) = FStruct s ->
  lookup string_dec s structs = Some sm ->
  walk structs m p (n :: r :: rest) = walk structs sm [] (r :: rest).
Proof. exact struct_continues. Qed.
Print Assumptions C06_struct_continues.

Theorem C06_find_global_total : forall l names s,
  structs_closed l = true -> find_global l names <> MissingStruct s.
Proof. exact find_global_total. Qed.
Print Assumptions C06_find_global_total.

Theorem C06_simple_characterisation : forall l names,
  simple_fmap (l_globals l) = true -> names <> [] ->
  find_global l names =
    match glookup names (l_globals l) with
    | Some f => Found f
    | None => if node_exists (l_globals l) names then Found read_only_field else NotFound
    end.
Proof. exact simple_characterisation. Qed.
Print Assumptions C06_simple_characterisation.

Theorem C06_order_independent : forall l l' names,
  NoDup (keys (l_globals l)) -> Permutation (l_globals l) (l_globals l') -> l_structs l = l_structs l' ->
  find_global l names = find_global l' names.
Proof. exact find_global_order_independent. Qed.
Print Assumptions C06_order_independent.

Theorem C06_known_root_resolves : forall l x,
  global_has_fields l x = true -> found (find_global l [x]) = true.
Proof. exact has_fields_implies_found. Qed.
Print Assumptions C06_known_root_resolves.

Theorem C06_write_verdict_table : forall l np w dep,
  find_global l np = Found {| f_kind := FProperty w; f_deprecated := dep |} ->
  write_verdict l np =
    match w with ReadOnly => VNotWritable | NewFields => VNotWritable | OverrideFields => VOk | FullWrite => VOk end.
Proof. exact write_verdict_table. Qed.
Print Assumptions C06_write_verdict_table.

Theorem C06_new_field_needs_permission : forall l root a rest,
  found (find_global l (root :: a :: rest)) = false ->
  write_verdict l (root :: a :: rest) = VNoField <->
  global_has_fields l root = true /\
  permits_new_fields l (removelast (root :: a :: rest))
     (seq 1 (List.length (removelast (root :: a :: rest)))) = false.
Proof. exact new_field_needs_permission. Qed.
Print Assumptions C06_new_field_needs_permission.

Theorem C06_targets_independent : forall l ts1 t ts2,
  nth (List.length ts1) (assignment_verdicts l (ts1 ++ t :: ts2)) VOk = target_verdict l t.
Proof. exact targets_independent. Qed.
Print Assumptions C06_targets_independent.

Theorem C06_w1_refuted :
  assignment_verdicts_w1 w1_lib [TLocal; TPath ["math"; "pi"]] = [VOk; VOk] /\
  assignment_verdicts w1_lib [TLocal; TPath ["math"; "pi"]] = [VOk; VNotWritable] /\
  assignment_verdicts_w1 w1_lib [TPath ["math"; "pi"]; TLocal] = [VNotWritable; VOk].
Proof. exact w1_refuted. Qed.
Print Assumptions C06_w1_refuted.

Theorem C06_dangling_struct_panics :
  structs_closed dangling_lib = false /\ find_global dangling_lib ["a"; "b"] = MissingStruct "Missing".
Proof. exact find_global_refuted_dangling. Qed.
Print Assumptions C06_dangling_struct_panics.
