(** C16 - the configured standard library decides exactly which syntax is accepted. Statements only. *)
From Selene Require Import Std.Versions Std.VersionsSpec Std.Extend Std.ExtendSpec Std.BuiltinFacts.

Theorem C16_version_union : forall vs b, has b (fst (lua_version vs)) = existsb (has_v b) vs.
Proof. exact version_union. Qed.
Print Assumptions C16_version_union.

Theorem C16_default_is_51 : fst (lua_version []) = d51.
Proof. exact default_is_51. Qed.
Print Assumptions C16_default_is_51.

Theorem C16_accepts_union : forall vs c, accepts c (fst (lua_version vs)) = existsb (accepts_v c) vs.
Proof. exact accepts_union. Qed.
Print Assumptions C16_accepts_union.

Theorem C16_unknown_reported : forall vs, snd (lua_version vs) = filter (fun v => negb (known v)) vs.
Proof. exact unknown_reported. Qed.
Print Assumptions C16_unknown_reported.

Theorem C16_chain_inherits : forall first rest,
  lua_version (l_versions (resolve_chain first rest)) =
  lua_version (spec_chain_versions (l_versions first) (map l_versions rest)).
Proof. exact chain_inherits. Qed.
Print Assumptions C16_chain_inherits.

Theorem C16_named_after_accepts :
  builtin_accepts "lua51" [] = true /\
  builtin_rejects "lua51" [CGoto; CIntDiv; CBitAndOr; CBitOther; CAttrib; CLuauSyntax; CBinLit; CJitLit; CHexFloat] = true /\
  builtin_accepts "lua52" [CGoto; CHexFloat] = true /\
  builtin_rejects "lua52" [CIntDiv; CBitAndOr; CBitOther; CAttrib; CLuauSyntax; CJitLit] = true /\
  builtin_accepts "lua53" [CGoto; CHexFloat; CIntDiv; CBitAndOr; CBitOther] = true /\
  builtin_rejects "lua53" [CAttrib; CLuauSyntax; CJitLit] = true /\
  builtin_accepts "luau" [CLuauSyntax; CIntDiv; CBinLit] = true /\
  builtin_rejects "luau" [CGoto; CBitOther; CAttrib; CJitLit] = true /\
  builtin_accepts "roblox" [CLuauSyntax; CIntDiv; CBinLit] = true /\
  builtin_rejects "roblox" [CGoto; CBitOther; CAttrib; CJitLit] = true.
Proof. exact named_after_accepts. Qed.
Print Assumptions C16_named_after_accepts.
