#!/bin/sh
# Builds the framework from files on disk only (offline): Coq development, harness, selene binary.
set -e
cd "$(dirname "$0")"
export CARGO_NET_OFFLINE=true
python3 - <<'PY'
import sys
sys.path.insert(0, '.')
from vlib import core
from vlib import translate
translate.run_all()
core.ensure_makefile()
rc, out = core.sh(["timeout", "3000", "make", "-j16"], cwd=core.COQ)
print(out[-3000:])
if rc != 0:
    sys.exit("coq build failed")
ok, out = core.build_harness()
if not ok:
    print(out[-3000:]); sys.exit("harness build failed")
ok, out = core.build_selene_bin()
if not ok:
    print(out[-3000:]); sys.exit("selene build failed")
print("setup ok")
PY
