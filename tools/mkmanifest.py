#!/usr/bin/env python3
"""Regenerates /verif/MANIFEST.json from the claims below (one entry per property with a check)."""
import json
import subprocess

TECH = "Coq proof over a hand-written Gallina model + model/implementation correspondence evaluated in coqc"
CLAIMS = {
 "C01": dict(level="proof", design="3/C01",
   text="PARTIAL proof + evaluated specification. The whole ScopeVisitor is modelled (the order in which full_moon's Visitor drives its hooks as an event generator over the Lua 5.1 syntax tree; scope stack, arenas, captured_references, reference merging and try_hoist as a state machine) and agrees with the real ScopeManager reference by reference and variable by variable, in arena order. Proved for every syntax tree: the walk's open/close sequence is balanced and never pops the root scope (both asserts unreachable), and undefined_variable reports the identifier of every qualifying reference exactly once. Lua's scoping is written as an independent resolver in Coq, including the occurrence-level known classes K1-K5; the property's two zones are EVALUATED by coqc on the real diagnostics of every generated program (no unexplained deviation), but the general theorem 'model agrees with Lua scoping outside K1-K5' is still open.",
   note="Trusted: full_moon's parser and the harness's printer of its tree; lua51 library roots as oracle; the open agreement theorem. Open findings K1-K5 are genuine deviations of selene from Lua scoping, listed in KNOWN_FINDINGS.txt with witnesses."),
 "C02": dict(level="proof", design="3/C02",
   text="PARTIAL proof + evaluated specification, on the same scope model as C01 (per-variable reference lists and read/write/extend flags are compared with the real ScopeManager). Proved: balance of the walk. The zones 'a variable with an unaffected expression-position use is never flagged' and 'a variable never mentioned again is flagged (unless ignored / implicit self)' are evaluated by coqc, from the independent Lua resolver, on the real unused_variable diagnostics of every generated program; deviations fall in the known classes K1-K4 (affected occurrences), KA (an affected occurrence captured by the variable) and K8 (library-root names).",
   note="Trusted: as C01; variables initialised with a table constructor are left unconstrained (the documented observes:write carve-out is not modelled); unused_variable itself is not modelled (its diagnostics are judged, not reproduced)."),
 "C03": dict(level="proof", design="3/C03",
   text="PARTIAL proof + evaluated specification, on the same scope model as C01. Proved: the shadowing lint reports exactly the variables whose `shadowed` field is set (minus ignored names and `...`) with the shadowed declaration as secondary label; balance of the walk. Evaluated per case by coqc against the independent Lua resolver: every report names the innermost visible same-name declaration, and every declaration re-using a visible name is reported; deviations fall in K3 (closures in initialisers walked late) and K7 (implicit globals treated as variables).",
   note="Trusted: as C01."),
 "C06": dict(level="proof", design="3/C06",
   text="Proof, for all libraries and all query paths, that the model of find_global obeys the documented rules (explicit entry wins; explicit segment beats `*`, `*` is the fallback; struct segments continue in the struct; any absorbs; on wildcard/struct/any-free libraries the result is exactly: key -> its field, proper prefix of keys -> implicit read-only table, else absent), is total when every named struct exists (and reaches the panic otherwise), does not depend on key order, that a known root always resolves, and that writes follow the writability table with every assignment target judged independently. Tied to /repo by evaluating the real find_global/global_has_fields and the incorrect_standard_library_use diagnostics of generated programs against model and rules inside coqc.",
   note="Trusted: the trie built by extract_into_tree is modelled extensionally (construction covered by correspondence only); name-path extraction and scope resolution are oracles here (real ScopeManager); W1 repaired by a fix: commit."),
 "C08": dict(level="proof", design="3/C08",
   text="Machine-checked proof (about 1500 lines of Coq, no axioms) that a verbatim model of filter_diagnostics - ordered insertion of Push/Pop instructions, anonymous pops, lazy replay against stably sorted diagnostics, conflict tracking, globals pushed last - computes, for every well-formed filter family and every list of diagnostics, exactly the declarative specification: the accepted inline filter for the lint with the smallest range containing the diagnostic's start decides (first declared among equal ranges), else the accepted global one, else the diagnostic is unchanged; content and order of the output, failures included; hence the `expect` on an empty stack is unreachable. Without any well-formedness assumption: diagnostics of lints no filter names pass unchanged and in place. The model is tied to /repo by driving the real filter_diagnostics (through a cfg hook) with diagnostics on every range endpoint +-1, by parse_comment on generated texts, and end to end (real traversal, real lints) against the filter-neutralised twin; the theorem's hypothesis wf_ok is evaluated on every dump.",
   note="Trusted: full_moon's trivia attachment and traversal order (taken from the real traversal; wf_ok checked per dump, not proved of the parser); Vec::sort_by_key stable; hook code."),
 "C09": dict(level="proof", design="3/C09",
   text="Proof over the verbatim model of filter_diagnostics / parse_comment / FilterVisitor that (for every input) an unknown-lint filter, a global filter after code and a same-piece same-lint filter each yield an invalid_lint_filter failure at the offending comment, that a rejected global filter leaves the instruction list, the accepted globals and the conflict state exactly as without it (inert), and that a malformed comment produces no entry. The model is tied to /repo by the same correspondence as C08 (parse_comment on generated texts incl. Unicode spaces; visit events of the real traversal; failures compared exactly, with ranges).",
   note="Trusted: as C08. Comments in the leading trivia of tokens that start no visited node (before else/end/until/`}`) are claimed by no node: class F2, listed open."),
 "C10": dict(level="proof", design="3/C10",
   text="Proof over the pipeline model (lints as oracles -> severities attached by get_lint_severity -> verbatim filter machine) that the findings are independent of the configuration, that an unconfigured lint keeps its default (with high_cyclomatic_complexity = allow re-proved against the lint table regenerated from /repo on every run), that relabelling severities commutes with sorting and with the filter machine (same diagnostics out, only un-governed ones change label), that a governing inline filter decides the emitted severity whatever the configured one (both directions), that a lint set to allow and not re-enabled stays invisible, and that the CLI counters ignore Allow diagnostics. Tied to /repo by comparing, inside coqc, what the real Checker shows for a file and for its filter-neutralised twin under all-allow / all-warn / all-deny / random per-lint configurations with the model's prediction from the findings under the empty configuration.",
   note="Trusted: lints do not read the configured severities (this is exactly what the correspondence samples); LintTable translator; CLI printing of non-Allow diagnostics is covered by C19/C20."),
 "C15": dict(level="proof", design="3/C15",
   text="Machine-checked proof (Coq 8.16) that the model of StandardLibrary::extend, of base-chain resolution and of the CLI `+` fold satisfies 'derived overrides base, removed removes, derived lua_versions win' for all libraries and chains of any length; the model is tied to /repo by a correspondence run: the real extend()/from_name() and the model are evaluated on the same generated and shipped libraries inside coqc, and the specification is evaluated on the implementation's own output.",
   note="Trusted: Coq kernel, harness printers, wf_lib (no duplicate keys) checked per dumped library; YAML text layer and on-disk base lookup not modelled."),
 "C19": dict(level="proof", design="3/C19",
   text="Proof that the CLI's counter/exit arithmetic (model of main.rs counting, exclusion order, summary, exit) is zero exactly when every considered file is quiet, or soft with --allow-warnings, that the printed totals equal the printed diagnostics per severity plus one per missing file, and that excluded files contribute nothing unless --no-exclude - for every list of command-line entries. Tied to /repo by running the real binary on generated argument lists/options/configurations and evaluating model and specification on the observed exit status, summary and printed diagnostics.",
   note="Trusted: per-file outcomes taken from Checker::test_on through the harness; output parsers; unreadable files and glob walk errors cannot be produced as root in this sandbox (modelled, not sampled)."),
 "C16": dict(level="proof", design="3/C16",
   text="Proof that the dialect selene parses with is exactly the union of the declared lua_versions (5.1 when none), that a construct is accepted iff some declared version has it, that unknown version names are exactly what is reported, that the dialect is inherited along base chains as C15 prescribes, and (re-proved on every run against data regenerated from /repo's names! table and default_std/*.yml) that each built-in library accepts the syntax of the version it is named after and of its bases. The construct table is validated exhaustively (64 version subsets x all samples) against full_moon::parse_fallible, lua_version() against the model on generated lists, and the CLI end to end on built-in names, generated yml base chains and `+` chains.",
   note="Trusted: the parser itself (black box; its acceptance per dialect bit is measured, not proved); translator for BuiltinHeads.v; known findings D1 (parser panic on & | under Luau) and D2 (`;;` rejected) are third-party parser defects listed open in KNOWN_FINDINGS.txt."),
}

props = [json.loads(l) for l in open('/verif/properties.jsonl')]
checks, na = [], []
for p in props:
    i = p['id']
    if i in CLAIMS:
        c = CLAIMS[i]
        checks.append({"property_id": i, "quick_cmd": "./check %s --quick" % i,
                       "thorough_cmd": "./check %s --thorough" % i,
                       "evidence_file": "/verif/evidence/%s.json" % i,
                       "replay_cmd_template": "./check %s --replay {path}" % i,
                       "engine": "coq-proof+correspondence",
                       "level_claimed": {"category": c["level"], "text": c["text"], "design_ref": c["design"]},
                       "level_note": c["note"], "technique": c.get("technique", TECH)})
    else:
        na.append({"property_id": i, "reason": "not yet built (work in progress, DESIGN.md section 3 has the planned model and theorems); not claimed until its check exists"})
hooks = subprocess.run("git -C /repo log --format=%h --grep='^hook:'", shell=True, capture_output=True, text=True).stdout.split()
m = {"version": 1, "setup_cmd": "./setup.sh",
     "hooks": {"guard": "selene_verif",
               "enable": "RUSTFLAGS=\"--cfg selene_verif\" (set by /verif/vlib/core.py for every cargo build)",
               "baseline_off_cmd": "cd /repo && cargo test --workspace --no-fail-fast --offline",
               "source_commits": hooks, "add_only": True},
     "engines": [{"name": "coq-proof+correspondence", "path": "/verif/check", "serves_properties": sorted(CLAIMS),
                  "kind_free_text": "Coq 8.16 theorems over hand-written Gallina models (coq/), tied to /repo by a Rust harness (harness/) and CLI runs that write Gallina case files which coqc evaluates against model and specification"}],
     "checks": checks, "not_applicable": na,
     "notes": "See DESIGN.md. KNOWN_FINDINGS.txt lists open/fixed findings; seeded/ holds confirmed seeded changes."}
json.dump(m, open('/verif/MANIFEST.json', 'w'), indent=1)
print("manifest: %d checks, %d not claimed" % (len(checks), len(na)))
