#!/usr/bin/env python3
"""repo_edit.py <file> <old-file> <new-file>: byte-exact single replacement in /repo, trying the file's own
line-ending convention (LF or CRLF) so that diffs stay minimal."""
import sys
path, old, new = sys.argv[1], open(sys.argv[2], 'rb').read(), open(sys.argv[3], 'rb').read()
s = open(path, 'rb').read()
if b'\r\n' in s:
    old = old.replace(b'\r\n', b'\n').replace(b'\n', b'\r\n')
    new = new.replace(b'\r\n', b'\n').replace(b'\n', b'\r\n')
old = old.rstrip(b'\r\n'); new = new.rstrip(b'\r\n')
assert s.count(old) == 1, "old text occurs %d times" % s.count(old)
open(path, 'wb').write(s.replace(old, new))
print("edited", path)
