#!/usr/bin/env python3
"""seed_keep.py <seed-dir-name> <property> <checks,comma> -- keeps a confirmed seeded change under
/verif/seeded/<name>/ (patch.diff, demo/, meta.json) and records which checks detect it.
The change is applied to /repo only for the duration of the check runs and reverted afterwards."""
import json
import os
import shutil
import subprocess
import sys

name, prop, checks = sys.argv[1], sys.argv[2], sys.argv[3].split(",")
root = os.environ.get("SEED_ROOT", "/tmp/seed")
src = "%s/%s.demo" % (root, name)
dst = "/verif/seeded/%s%s" % (name, os.environ.get("SEED_SUFFIX", ""))
os.makedirs(dst, exist_ok=True)
shutil.copy(os.path.join(src, "patch.diff"), os.path.join(dst, "patch.diff"))
demo = os.path.join(dst, "demo")
shutil.rmtree(demo, ignore_errors=True)
shutil.copytree(src, demo, ignore=shutil.ignore_patterns("patch.diff", "verify_*.log", "target"))
verify = json.load(open(os.path.join(src, "verify.json")))
notes = open(os.path.join(src, "NOTES.md")).read() if os.path.exists(os.path.join(src, "NOTES.md")) else ""
det = {}
assert subprocess.run("git -C /repo status --porcelain", shell=True, capture_output=True, text=True).stdout.strip() == "", "/repo dirty"
subprocess.run(["git", "-C", "/repo", "apply", os.path.join(dst, "patch.diff")], check=True)
try:
    for c in checks:
        p = subprocess.run(["./check", c, "--quick"], cwd="/verif", capture_output=True, text=True)
        lines = [l for l in p.stdout.splitlines() if l.startswith("VIOLATION")]
        det[c] = {"exit": p.returncode, "violation_lines": lines[:3], "n_violation_lines": len(lines)}
finally:
    subprocess.run("git -C /repo checkout -- .", shell=True, check=True)
meta = {"breaks_property": prop, "origin": "independent sub-agent given only the property text and a scratch worktree",
        "needs_to_manifest": notes, "confirmed": {
            "what_i_ran": "tools/seed_verify.sh %s: demo.sh on the pristine worktree, cargo test --workspace --offline with the patch, demo.sh with the patch" % name,
            **verify},
        "detected_by": det}
json.dump(meta, open(os.path.join(dst, "meta.json"), "w"), indent=1)
print(name, {k: (v["exit"], v["n_violation_lines"]) for k, v in det.items()})
