#!/bin/bash
# usage: seed_verify.sh <ID>   -- confirms a seeded change in the scratch worktree /tmp/seed/<ID>:
#   demo passes on the pristine tree, the test suite passes with the change, demo fails with the change.
id=$1; root=${SEED_ROOT:-/tmp/seed}; wt=$root/$id; demo=$root/$id.demo
export CARGO_NET_OFFLINE=true
cd $wt || exit 2
git checkout -q -- . ; git clean -fdq -e target; git checkout -q --detach main || exit 2
bash $demo/demo.sh $wt > $demo/verify_pristine.log 2>&1; p=$?
git apply $demo/patch.diff || { echo "{\"id\":\"$id\",\"error\":\"patch does not apply\"}"; exit 1; }
cargo test --workspace --no-fail-fast --offline > $demo/verify_tests.log 2>&1; t=$?
passed=$(grep -E "^test result" $demo/verify_tests.log | awk '{s+=$4} END {print s}')
failed=$(grep -E "^test result" $demo/verify_tests.log | awk '{s+=$6} END {print s}')
bash $demo/demo.sh $wt > $demo/verify_mutant.log 2>&1; m=$?
git checkout -q -- . ; git clean -fdq -e target
echo "{\"id\":\"$id\",\"demo_pristine_exit\":$p,\"tests_exit\":$t,\"tests_passed\":$passed,\"tests_failed\":$failed,\"demo_mutant_exit\":$m,\"head\":\"$(git -C /repo log --format=%h -1)\"}" | tee $demo/verify.json
