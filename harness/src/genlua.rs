//! Grammar-directed Lua 5.1 program generator over a small, heavily reused name pool.
use crate::rng::Rng;

pub struct LuaGen<'a> {
    pub r: &'a mut Rng,
    pub names: Vec<&'static str>,   // script names
    pub globals: Vec<&'static str>, // standard-library roots and unknown globals
    pub depth_limit: usize,
    pub in_function: usize,
    pub in_vararg_fn: Vec<bool>,
    pub shapes: std::collections::BTreeMap<&'static str, usize>,
}

impl<'a> LuaGen<'a> {
    pub fn new(r: &'a mut Rng) -> Self {
        let pool: &[&'static str] = &["a", "b", "c", "x", "y", "i"];
        let k = r.range(3, 6);
        let mut names = pool[..k].to_vec();
        if r.chance(1, 6) {
            names.push("table");
        }
        if r.chance(1, 4) {
            names.push("_");
        }
        if r.chance(1, 5) {
            names.push("_u");
        }
        if r.chance(1, 5) {
            // declared explicitly (local, parameter, loop variable), used as a method's base, and implicit in methods
            names.push("self");
        }
        LuaGen {
            r,
            names,
            globals: vec!["print", "math", "string", "table", "g1", "g2"],
            depth_limit: 4,
            in_function: 0,
            in_vararg_fn: vec![true], // main chunk is vararg
            shapes: Default::default(),
        }
    }

    fn note(&mut self, s: &'static str) {
        *self.shapes.entry(s).or_insert(0) += 1;
    }

    fn name(&mut self) -> &'static str {
        let n = self.names.len();
        self.names[self.r.below(n)]
    }

    fn any_name(&mut self) -> &'static str {
        if self.r.chance(1, 5) {
            let n = self.globals.len();
            self.globals[self.r.below(n)]
        } else {
            self.name()
        }
    }

    pub fn expr(&mut self, depth: usize) -> String {
        let w: &[usize] = if depth >= 3 { &[6, 3, 0, 0, 0, 0, 0, 1, 0] } else { &[6, 3, 3, 2, 2, 3, 2, 1, 1] };
        match self.r.weighted(w) {
            0 => self.any_name().to_string(),
            1 => (*self.r.pick(&["1", "2", "nil", "true", "\"s\"", "0"])).to_string(),
            2 => {
                let op = *self.r.pick(&["+", "==", "..", "and", "or", "<"]);
                format!("{} {} {}", self.expr(depth + 1), op, self.expr(depth + 1))
            }
            3 => {
                self.note("call-expr");
                let f = self.callee(depth);
                let args = self.arglist(depth);
                format!("{}{}", f, args)
            }
            4 => {
                self.note("closure");
                self.function_expr(depth)
            }
            5 => {
                // index / field
                match self.r.below(3) {
                    0 => format!("{}.{}", self.any_name(), self.r.pick(&["f", "g", "x"])),
                    1 => format!("{}[{}]", self.any_name(), self.expr(depth + 1)),
                    _ => format!("{}.{}.{}", self.any_name(), self.r.pick(&["f", "g"]), self.r.pick(&["x", "y"])),
                }
            }
            6 => {
                self.note("table");
                let k = self.r.below(3);
                let fs: Vec<String> = (0..k)
                    .map(|_| match self.r.below(3) {
                        0 => self.expr(depth + 1),
                        1 => format!("{} = {}", self.r.pick(&["f", "x"]), self.expr(depth + 1)),
                        _ => format!("[{}] = {}", self.expr(depth + 1), self.expr(depth + 1)),
                    })
                    .collect();
                format!("{{ {} }}", fs.join(", "))
            }
            7 => {
                if *self.in_vararg_fn.last().unwrap() || self.r.chance(1, 2) {
                    self.note("vararg");
                    "...".to_string()
                } else {
                    self.name().to_string()
                }
            }
            _ => match self.r.below(3) {
                0 => format!("({})", self.expr(depth + 1)),
                1 => format!("not {}", self.expr(depth + 1)),
                _ => format!("#{}", self.any_name()),
            },
        }
    }

    fn callee(&mut self, depth: usize) -> String {
        match self.r.below(8) {
            0 => format!("{}.{}", self.any_name(), self.r.pick(&["f", "g"])),
            1 => format!("{}:{}", self.any_name(), self.r.pick(&["m", "f"])),
            2 if depth < 2 => format!("({})", self.function_expr(depth + 1)),
            // a parenthesised name, path or operator expression as the callee
            6 => match self.r.below(4) {
                0 => format!("({})", self.any_name()),
                1 => format!("({}.{})", self.any_name(), self.r.pick(&["f", "g"])),
                2 => format!("({}):{}", self.any_name(), self.r.pick(&["m", "f"])),
                _ => format!("({} or {})", self.any_name(), self.any_name()),
            },
            _ => self.any_name().to_string(),
        }
    }

    fn arglist(&mut self, depth: usize) -> String {
        match self.r.below(8) {
            0 => " \"str\"".to_string(),
            1 => format!("{{ {} }}", self.expr(depth + 1)),
            _ => {
                let k = self.r.below(3);
                let a: Vec<String> = (0..k).map(|_| self.expr(depth + 1)).collect();
                format!("({})", a.join(", "))
            }
        }
    }

    fn function_expr(&mut self, depth: usize) -> String {
        let (params, va) = self.params();
        self.in_function += 1;
        self.in_vararg_fn.push(va);
        let body = self.block(depth + 1, 1);
        self.in_vararg_fn.pop();
        self.in_function -= 1;
        format!("function({})\n{}end", params, body)
    }

    fn params(&mut self) -> (String, bool) {
        let k = self.r.below(3);
        let mut ps: Vec<String> = (0..k).map(|_| self.name().to_string()).collect();
        let va = self.r.chance(1, 4);
        if va {
            ps.push("...".to_string());
        }
        (ps.join(", "), va)
    }

    pub fn block(&mut self, depth: usize, min: usize) -> String {
        let n = if depth >= self.depth_limit { min } else { self.r.range(min, 3) };
        let mut out = String::new();
        for _ in 0..n {
            out.push_str(&self.stmt(depth));
        }
        if self.r.chance(1, 8) {
            let k = self.r.below(3);
            let es: Vec<String> = (0..k).map(|_| self.expr(2)).collect();
            self.note("return");
            out.push_str(&format!("return {}\n", es.join(", ")));
        }
        out
    }

    pub fn stmt(&mut self, depth: usize) -> String {
        let deep = depth >= self.depth_limit;
        let w: &[usize] = if deep {
            &[5, 4, 3, 0, 0, 0, 0, 0, 0, 0, 0, 2, 3, 0]
        } else {
            &[6, 4, 3, 2, 2, 3, 2, 2, 2, 2, 2, 2, 4, 1]
        };
        match self.r.weighted(w) {
            0 => {
                // local a, b = e1, e2 (with missing / surplus expressions)
                let nn = *self.r.pick(&[1, 1, 1, 2, 3]);
                let ne = *self.r.pick(&[0, 1, 1, 1, 2, 3]);
                if ne > nn {
                    self.note("local-surplus");
                }
                if nn > 1 {
                    self.note("local-multi");
                }
                let ns: Vec<String> = (0..nn).map(|_| self.name().to_string()).collect();
                let es: Vec<String> = (0..ne).map(|_| self.expr(1)).collect();
                if es.is_empty() {
                    format!("local {}\n", ns.join(", "))
                } else {
                    format!("local {} = {}\n", ns.join(", "), es.join(", "))
                }
            }
            1 => {
                // assignment
                let nv = *self.r.pick(&[1, 1, 1, 2]);
                let ne = *self.r.pick(&[1, 1, 2, 3]);
                if ne > nv {
                    self.note("assign-surplus");
                }
                let vs: Vec<String> = (0..nv)
                    .map(|_| match self.r.below(6) {
                        0 => format!("{}.{}", self.any_name(), self.r.pick(&["f", "x"])),
                        1 => format!("{}[{}]", self.any_name(), self.expr(2)),
                        5 => match self.r.below(3) {
                            // a parenthesised prefix: the target is not a name, the values are read all the same
                            0 => format!("({} or {})[{}]", self.any_name(), self.any_name(), self.expr(2)),
                            1 => format!("({}).{}", self.any_name(), self.r.pick(&["f", "x"])),
                            _ => format!("({}.f)[1]", self.any_name()),
                        },
                        _ => {
                            if self.r.chance(1, 3) {
                                self.note("global-assign");
                            }
                            self.any_name().to_string()
                        }
                    })
                    .collect();
                let es: Vec<String> = (0..ne).map(|_| self.expr(1)).collect();
                format!("{} = {}\n", vs.join(", "), es.join(", "))
            }
            2 => {
                self.note("call-stmt");
                let f = self.callee(1);
                let a = self.arglist(1);
                format!("{}{}\n", f, a)
            }
            3 => {
                self.note("do");
                format!("do\n{}end\n", self.block(depth + 1, 0))
            }
            4 => {
                self.note("while");
                format!("while {} do\n{}end\n", self.expr(1), self.block(depth + 1, 0))
            }
            5 => {
                self.note("if");
                let mut s = format!("if {} then\n{}", self.expr(1), self.block(depth + 1, 0));
                for _ in 0..self.r.below(3) {
                    self.note("elseif");
                    s.push_str(&format!("elseif {} then\n{}", self.expr(1), self.block(depth + 1, 0)));
                }
                match self.r.below(4) {
                    0 => {
                        self.note("else");
                        s.push_str(&format!("else\n{}", self.block(depth + 1, 1)));
                    }
                    1 => {
                        self.note("empty-else");
                        s.push_str("else\n");
                    }
                    _ => {}
                }
                s.push_str("end\n");
                s
            }
            6 => {
                self.note("numeric-for");
                let v = self.name();
                let step = if self.r.chance(1, 4) { format!(", {}", self.expr(2)) } else { String::new() };
                format!("for {} = {}, {}{} do\n{}end\n", v, self.expr(1), self.expr(1), step, self.block(depth + 1, 0))
            }
            7 => {
                self.note("generic-for");
                let nn = self.r.range(1, 2);
                let ns: Vec<String> = (0..nn).map(|_| self.name().to_string()).collect();
                let ne = self.r.range(1, 2);
                let es: Vec<String> = (0..ne).map(|_| self.expr(1)).collect();
                format!("for {} in {} do\n{}end\n", ns.join(", "), es.join(", "), self.block(depth + 1, 0))
            }
            8 => {
                self.note("repeat");
                format!("repeat\n{}until {}\n", self.block(depth + 1, 0), self.expr(1))
            }
            9 => {
                self.note("local-function");
                let n = self.name();
                let (params, va) = self.params();
                self.in_vararg_fn.push(va);
                let b = self.block(depth + 1, 0);
                self.in_vararg_fn.pop();
                format!("local function {}({})\n{}end\n", n, params, b)
            }
            10 => {
                let (params, va) = self.params();
                let name = match self.r.below(4) {
                    0 => {
                        self.note("function-decl-global");
                        self.any_name().to_string()
                    }
                    1 => {
                        self.note("function-decl-field");
                        format!("{}.{}", self.any_name(), self.r.pick(&["f", "g"]))
                    }
                    2 => {
                        self.note("method-decl");
                        if self.r.chance(1, 3) {
                            format!("{}.{}:{}", self.any_name(), self.r.pick(&["f", "g"]), self.r.pick(&["m", "f"]))
                        } else {
                            format!("{}:{}", self.any_name(), self.r.pick(&["m", "f"]))
                        }
                    }
                    _ => {
                        self.note("function-decl");
                        self.name().to_string()
                    }
                };
                self.in_vararg_fn.push(va);
                let b = self.block(depth + 1, 0);
                self.in_vararg_fn.pop();
                format!("function {}({})\n{}end\n", name, params, b)
            }
            12 => {
                // static tables, writes into them and library call statements with bare-identifier arguments
                match self.r.below(8) {
                    0 | 1 => {
                        self.note("static-table-local");
                        let v = self.name();
                        let init = *self.r.pick(&["{}", "{}", "{ 1 }", "{ f = 1 }", "({})", "{ {} }"]);
                        format!("local {} = {}\n", v, init)
                    }
                    2 | 3 => {
                        self.note("static-table-write");
                        let v = self.name();
                        let e = self.expr(2);
                        match self.r.below(7) {
                            0 => format!("{}.f = {}\n", v, e),
                            1 => format!("{}[1] = {}\n", v, e),
                            2 => format!("{}[\"k\"] = {}\n", v, e),
                            3 => format!("{}.f.g = {}\n", v, e),
                            4 => format!("{}[{}] = {}\n", v, self.name(), e),
                            5 => format!("{}[(nil)] = {}\n", v, e),
                            _ => format!("{}.f, {}.g = {}\n", v, self.name(), e),
                        }
                    }
                    _ => {
                        self.note("library-call-stmt");
                        let f = *self.r.pick(&["table.insert", "table.insert", "table.sort", "table.remove", "print", "rawset", "table.foo", "math.floor", "string.rep", "table.concat", "g1"]);
                        let k = self.r.range(1, 3);
                        let args: Vec<String> = (0..k)
                            .map(|_| match self.r.below(6) {
                                0 => format!("{}.f", self.name()),
                                1 => self.expr(2),
                                2 => "1".to_string(),
                                _ => self.name().to_string(),
                            })
                            .collect();
                        if self.r.chance(1, 8) {
                            format!("{}:{}({})\n", self.name(), self.r.pick(&["insert", "m"]), args.join(", "))
                        } else {
                            format!("{}({})\n", f, args.join(", "))
                        }
                    }
                }
            }
            13 => {
                // arms that consist of a `return` only (a block without statements still has a range)
                self.note("return-only-arm");
                let ret = |g: &mut Self| -> String {
                    match g.r.below(4) {
                        0 => "return\n".to_string(),
                        1 => format!("return {}\n", g.expr(2)),
                        _ => format!("return {}\n", g.function_expr(depth + 1)),
                    }
                };
                let c = self.expr(1);
                let then_block = if self.r.chance(1, 3) { ret(self) } else { self.block(depth + 1, 1) };
                let mut s = format!("if {} then\n{}", c, then_block);
                if self.r.chance(1, 3) {
                    let c2 = self.expr(1);
                    let b = if self.r.chance(1, 2) { ret(self) } else { self.block(depth + 1, 0) };
                    s.push_str(&format!("elseif {} then\n{}", c2, b));
                }
                if self.r.chance(3, 4) {
                    let r = ret(self);
                    s.push_str(&format!("else\n{}", r));
                }
                s.push_str("end\n");
                s
            }
            _ => {
                // the K1 / K2 / K3 shapes, explicitly
                match self.r.below(4) {
                    0 => {
                        self.note("for-bound-self");
                        let v = self.name();
                        format!("for {} = {}, {} do\n{}end\n", v, v, self.expr(2), self.block(depth + 1, 0))
                    }
                    1 => {
                        self.note("local-self-ref");
                        let v = self.name();
                        let w = self.name();
                        format!("local {}, {} = {}, {}\n", v, w, self.expr(2), v)
                    }
                    2 => {
                        self.note("local-closure-self");
                        let v = self.name();
                        format!("local {} = function() return {} end\n", v, v)
                    }
                    _ => {
                        self.note("break");
                        "while true do break end\n".to_string()
                    }
                }
            }
        }
    }

    pub fn program(&mut self) -> String {
        let n = self.r.range(1, 6);
        let mut out = String::new();
        for _ in 0..n {
            out.push_str(&self.stmt(0));
        }
        out
    }
}

pub fn gen_program(r: &mut Rng) -> (String, std::collections::BTreeMap<&'static str, usize>) {
    let mut g = LuaGen::new(r);
    let src = g.program();
    (src, g.shapes)
}

/// Programs aimed at unused_variable's analysis: one or two locals (static tables or not) and a few
/// statements that write into them, pass them to library / script functions or read them.
pub fn gen_unused_program(r: &mut Rng) -> (String, std::collections::BTreeMap<&'static str, usize>) {
    let mut shapes = std::collections::BTreeMap::new();
    shapes.insert("unused-focus", 1usize);
    let names = ["t", "u", "entry"];
    let mut body = String::new();
    let shadow = r.below(6);
    if shadow == 0 {
        body.push_str("local table = { insert = print }\n");
    }
    let nv = r.range(1, 2);
    let tables_only = r.chance(1, 3);
    for v in names.iter().take(nv) {
        let init = if tables_only { *r.pick(&["{}", "{ 1 }", "{ name = x }"]) } else { *r.pick(&["{}", "{}", "{ 1 }", "{ name = x }", "1", "f()", "({})", "nil"]) };
        body.push_str(&format!("local {} = {}\n", v, init));
    }
    for _ in 0..r.range(1, 4) {
        let v = names[r.below(nv)];
        let w = names[r.below(nv)];
        let line = match r.below(26) {
            22 => format!("{v}:m().y = 1"),
            23 => format!("{v}().y = 1"),
            24 => format!("{v}.f().g = {w}"),
            25 => format!("{v}[1]().k.j = 1"),
            0 => format!("{v}.f = 1"),
            1 => format!("{v}[1] = x"),
            2 => format!("{v}[\"k\"] = {w}"),
            3 => format!("{v}.f.g = 1"),
            4 => format!("{v}[x] = 1"),
            5 => format!("table.insert({v}, 1)"),
            6 => format!("table.insert({v}, {w})"),
            7 => format!("table.insert(registry.entries, {v})"),
            8 => format!("table.insert(g(), {v})"),
            9 => format!("table.insert(1, {v}, {w})"),
            10 => format!("print({v})"),
            11 => format!("table.sort({v})"),
            12 => format!("{v}:insert(1)"),
            13 => format!("rawset({v}, \"k\", 1)"),
            14 => format!("g1({v})"),
            15 => format!("local keep = table.insert({v}, 1)"),
            16 => format!("table.insert({{}}, {v})"),
            17 => format!("table.insert({v})"),
            18 => format!("table.foo({v})"),
            19 => format!("table.insert(x, \"s\", {v})"),
            20 => format!("{v} = {w}"),
            _ => format!("string.rep({v}, 2)"),
        };
        body.push_str(&line);
        body.push('\n');
    }
    if r.chance(1, 4) {
        // one call whose arguments are observed differently (write-only first argument, plain reads after it)
        let (a, b) = if nv > 1 && r.chance(1, 2) { (names[0], names[1]) } else if nv > 1 { (names[1], names[0]) } else { (names[0], names[0]) };
        body.push_str(&match r.below(4) {
            0 => format!("table.insert({a}, {b})\n"),
            1 => format!("table.insert({a}, 1, {b})\n"),
            2 => format!("table.insert({a}, {b}, {a})\n"),
            _ => format!("rawset({a}, {b}, {b})\n"),
        });
    }
    if r.chance(1, 5) {
        body.push_str(&format!("return {}\n", names[r.below(nv)]));
    }
    let src = match r.below(5) {
        0 => {
            // the same spelled call with the library's `table` first and a parameter `table` afterwards (or the other way round)
            let std_call = "local q0 = {}\ntable.insert(q0, 1)\n";
            match r.below(3) {
                0 => format!("{std_call}local function wrap(table)\n{body}end\nwrap()\n"),
                1 => format!("local function wrap(table)\n{body}end\nwrap()\n{std_call}"),
                _ => format!("local function wrap(table)\n{body}end\nwrap()\n"),
            }
        }
        1 => format!("local function wrap(x)\n{body}end\nwrap()\n"),
        2 => format!("do\n{body}end\n"),
        _ => body,
    };
    (src, shapes)
}
