//! C17: serde value-level correspondence, text round trips with hostile strings, v1 upgrade.
use crate::cases::Cases;
use crate::gal::*;
use crate::genlib::*;
use crate::rng::Rng;
use selene_lib::standard_library::*;
use serde_json::json;
use serde_yaml::Value;
use std::collections::BTreeMap;

const HOSTILE: [&str; 22] = [
    "true", "false", "null", "~", "1e3", "0x1", " lead", "trail ", "a: b", "#x", "*", "&a", "multi\nline", "é",
    "", "- a", "yes", "no", "1", "0.5", "'q'", "\"dq\"",
];

fn hs(r: &mut Rng) -> String {
    if r.chance(1, 2) { (*r.pick(&HOSTILE)).to_string() } else { (*r.pick(&["count", "plain", "x_y", "a.b"])).to_string() }
}

fn hostile_deprecated(r: &mut Rng) -> Option<Deprecated> {
    if r.chance(1, 3) {
        Some(Deprecated { message: hs(r), replace: (0..r.below(3)).map(|_| hs(r)).collect() })
    } else {
        None
    }
}

fn hostile_field(r: &mut Rng) -> Field {
    let o = LibOpts { max_keys: 3, max_depth: 2, removed: true, structs: true, versions: true, rich_fields: true };
    let mut f = gen_field(r, &o);
    if let FieldKind::Function(b) = &mut f.field_kind {
        for a in b.arguments.iter_mut() {
            if r.chance(1, 3) {
                a.required = Required::Required(Some(hs(r)));
            }
            if r.chance(1, 4) {
                a.argument_type = ArgumentType::Constant((0..r.range(0, 3)).map(|_| hs(r)).collect());
            } else if r.chance(1, 6) {
                a.argument_type = ArgumentType::Display(if r.chance(1, 2) { hs(r) } else {
                    (*r.pick(&["number", "string", "table", "any", "...", "nil", "bool", "function", "Number"])).to_string() });
            }
            a.deprecated = hostile_deprecated(r);
        }
    }
    if let FieldKind::Struct(s) = &mut f.field_kind {
        if r.chance(1, 3) {
            *s = hs(r);
        }
    }
    f.deprecated = hostile_deprecated(r);
    f
}

fn hostile_key(r: &mut Rng) -> String {
    match r.below(5) {
        0 => hs(r),
        1 => format!("{}.{}", r.pick(&["a", "1", "true"]), r.pick(&["*", "b", "0"])),
        _ => gen_key(r, 3),
    }
}

pub fn hostile_lib(r: &mut Rng) -> StandardLibrary {
    let mut l = StandardLibrary::default();
    for _ in 0..r.below(5) {
        l.globals.insert(hostile_key(r), hostile_field(r));
    }
    for _ in 0..r.below(3) {
        let mut m = BTreeMap::new();
        for _ in 0..r.below(3) {
            m.insert(hostile_key(r), hostile_field(r));
        }
        l.structs.insert(hs(r), m);
    }
    l.lua_versions = gen_versions(r);
    if r.chance(1, 4) { l.base = Some(hs(r)); }
    if r.chance(1, 4) { l.name = Some(hs(r)); }
    if r.chance(1, 5) { l.last_updated = Some(r.below(100000) as i64 - 50); }
    if r.chance(1, 5) { l.last_selene_version = Some(hs(r)); }
    if r.chance(1, 5) {
        l.roblox_classes.insert(hs(r), RobloxClass { superclass: hs(r), events: vec![hs(r)], properties: vec![] });
    }
    l
}

fn gfield_s(f: &Field) -> String { gfield(f) }

fn gz(z: i64) -> String {
    if z < 0 { format!("(Z.opp {}%Z)", -z) } else { format!("{}%Z", z) }
}

pub fn gslib(l: &StandardLibrary) -> String {
    let fmap = |m: &BTreeMap<String, Field>| glist(m.iter(), |(k, f)| format!("({}, {})", gstr(k), gfield_s(f)));
    format!(
        "{{| s_base := {}; s_name := {}; s_globals := {}; s_structs := {}; s_versions := {}; s_last_updated := {}; s_last_selene_version := {}; s_roblox_classes := {} |}}",
        gopt(l.base.as_ref(), |s| gstr(s)),
        gopt(l.name.as_ref(), |s| gstr(s)),
        fmap(&l.globals),
        glist(l.structs.iter(), |(k, m)| format!("({}, {})", gstr(k), fmap(m))),
        glist(l.lua_versions.iter(), gversion),
        gopt(l.last_updated, gz),
        gopt(l.last_selene_version.as_ref(), |s| gstr(s)),
        glist(l.roblox_classes.iter(), |(k, c)| format!(
            "({}, {{| rc_superclass := {}; rc_events := {}; rc_properties := {} |}})",
            gstr(k), gstr(&c.superclass), glist(c.events.iter(), |s| gstr(s)), glist(c.properties.iter(), |s| gstr(s))
        ))
    )
}

pub fn gyval(v: &Value) -> Option<String> {
    Some(match v {
        Value::Null => "YNull".to_string(),
        Value::Bool(b) => format!("(YBool {})", gbool(*b)),
        Value::Number(n) => format!("(YInt {})", gz(n.as_i64()?)),
        Value::String(s) => format!("(YStr {})", gstr(s)),
        Value::Sequence(l) => {
            let items: Option<Vec<String>> = l.iter().map(gyval).collect();
            format!("(YSeq {})", glist(items?.into_iter(), |s| s))
        }
        Value::Mapping(m) => {
            let items: Option<Vec<String>> = m
                .iter()
                .map(|(k, v)| Some(format!("({}, {})", gstr(k.as_str()?), gyval(v)?)))
                .collect();
            format!("(YMap {})", glist(items?.into_iter(), |s| s))
        }
        Value::Tagged(_) => return None,
    })
}

/// mutate a serialised value: drop / retype / add keys somewhere
fn mutate(r: &mut Rng, v: &mut Value, depth: usize) {
    match v {
        Value::Mapping(m) => {
            let keys: Vec<Value> = m.keys().cloned().collect();
            match r.below(6) {
                0 if !keys.is_empty() => {
                    let k = r.pick(&keys).clone();
                    m.remove(&k);
                }
                1 => {
                    let k = *r.pick(&["any", "removed", "property", "struct", "args", "method", "must_use", "deprecated", "required",
                                      "type", "observes", "display", "message", "replace", "bogus", "base", "lua_versions", "globals"]);
                    let val = match r.below(6) {
                        0 => Value::Bool(true),
                        1 => Value::Bool(false),
                        2 => Value::String((*r.pick(&["read-only", "true", "false", "any", "...", "write", "lua52", "x"])).to_string()),
                        3 => Value::Null,
                        4 => Value::Sequence(vec![]),
                        _ => Value::Number(1.into()),
                    };
                    m.insert(Value::String(k.to_string()), val);
                }
                _ if !keys.is_empty() && depth < 6 => {
                    let k = r.pick(&keys).clone();
                    if let Some(child) = m.get_mut(&k) {
                        mutate(r, child, depth + 1);
                    }
                }
                _ => {}
            }
        }
        Value::Sequence(l) => {
            if !l.is_empty() && depth < 6 {
                let i = r.below(l.len());
                mutate(r, &mut l[i], depth + 1);
            } else {
                l.push(Value::String("x".to_string()));
            }
        }
        Value::String(s) => {
            *s = (*r.pick(&["true", "false", "read-write", "number", "...", "nil", "lua53"])).to_string();
        }
        Value::Bool(b) => {
            if r.chance(1, 2) { *b = !*b; } else { *v = Value::String(b.to_string()); }
        }
        _ => {}
    }
}

pub fn generate(seed: u64, n: usize, _thorough: bool) -> Cases {
    let mut cases = Cases::new("C17");
    let mut rng = Rng::new(seed);
    // shipped libraries first
    for name in ["lua51", "lua52", "lua53", "luau"] {
        let l = StandardLibrary::from_name(name).unwrap();
        push_lib_case(&mut cases, &l, "builtin");
    }
    for i in 0..n {
        let mut r = rng.fork(i as u64);
        let l = hostile_lib(&mut r);
        push_lib_case(&mut cases, &l, "generated");
        // deserialisation of mutated values
        if let Ok(mut v) = serde_yaml::to_value(&l) {
            for _ in 0..r.range(1, 3) {
                mutate(&mut r, &mut v, 0);
            }
            if let Some(term) = gyval(&v) {
                let res: Result<StandardLibrary, _> = serde_yaml::from_value(v.clone());
                let out = match &res { Ok(l2) => format!("(Some {})", gslib(l2)), Err(_) => "None".to_string() };
                // "loading never accepts a document that it would then serialise to something that fails to load"
                let reload_ok = match &res {
                    Ok(l2) => serde_yaml::to_string(l2).ok().and_then(|t| serde_yaml::from_str::<StandardLibrary>(&t).ok()).map(|l3| &l3 == l2).unwrap_or(false),
                    Err(_) => true,
                };
                cases.push(
                    format!("CDe {} {} {}", term, out, gbool(reload_ok)),
                    json!({"kind": "deserialize-mutated", "value": serde_yaml::to_string(&v).unwrap_or_default(), "accepted": res.is_ok(),
                           "error": res.as_ref().err().map(|e| e.to_string()), "nontrivial": true}),
                );
            }
        }
    }
    cases
}

fn push_lib_case(cases: &mut Cases, l: &StandardLibrary, origin: &str) {
    let v = match serde_yaml::to_value(l) { Ok(v) => v, Err(_) => return };
    let vt = match gyval(&v) { Some(t) => t, None => return };
    let text = serde_yaml::to_string(l).unwrap_or_default();
    let reread: Result<StandardLibrary, _> = serde_yaml::from_str(&text);
    let text_ok = matches!(&reread, Ok(l2) if l2 == l);
    let back: Result<StandardLibrary, _> = serde_yaml::from_value(v);
    let value_ok = matches!(&back, Ok(l2) if l2 == l);
    cases.push(
        format!("CSer {} {} {} {}", gslib(l), vt, gbool(value_ok), gbool(text_ok)),
        json!({"kind": format!("serialize-{origin}"), "yaml": if text.len() > 1500 { format!("{}...", &text[..1500]) } else { text },
               "globals": l.globals.len(), "value_roundtrip": value_ok, "text_roundtrip": text_ok,
               "reload_error": reread.as_ref().err().map(|e| e.to_string()), "nontrivial": l.globals.len() > 0}),
    );
}
