//! C04, second part: the "same text" lints (ifs_same_cond, if_same_then_else, almost_swapped) on whole
//! programs, and multiple_statements on programs laid out over lines in many ways.
use crate::astdump;
use crate::cases::Cases;
use crate::gal::*;
use crate::genlua::gen_program;
use crate::rng::Rng;
use full_moon::ast::{self, Ast};
use full_moon::node::Node;
use full_moon::tokenizer::{Symbol, TokenType};
use full_moon::visitors::Visitor;
use selene_lib::{standard_library::StandardLibrary, Checker, CheckerConfig};
use serde_json::json;
use std::panic::{catch_unwind, AssertUnwindSafe};

const CONDS: [&str; 32] = [
    "x", "y", "x.y", "x.y == 1", "t[1]", "t[i]", "t[f()]", "t[g(1)].k", "f()", "x + 1 > 2", "(x)", "not x", "x == \"s\"", "x == 's'",
    "t.a.b", "t:m()", "t.m(x)", "#t > 0", "x and y", "x or f()", "{}", "function() f() end", "t[function() f() end]", "...",
    "t[{ f() }]", "-x < 0x10",
    "({ [f()] = true })[x]", "t[{ [g(1)] = 1 }]", "{ k = f() }", "({ [x] = true })[y]", "t[(f())]", "t[-f()]",
];
const BLOCKS: [&str; 16] = [
    "print(1);", "print(1); print(2)", "print(1)", "print(1)", "print(2)", "print(1) print(2)", "return", "return 1", "local z = 1\nprint(z)", "", "-- nothing", "x = y\ny = x",
    "f()\nreturn 1", "do print(1) end", "print(\"a\")", "print('a')",
];
const TARGETS: [&str; 14] = ["a", "b", "t.x", "t.y", "t[i]", "t[f()]", "f().x", "t[1]", "t[\"x\"]", "(a).b", "ab", "t", "item", "items"];

/// the same code with different trivia (never changes the tokens)
fn respell(r: &mut Rng, s: &str) -> String {
    match r.below(5) {
        0 => s.replace(' ', "  "),
        1 => s.replace(' ', " --[[c]] "),
        2 => format!("{s} --[[t]]"),
        3 => s.replace('\n', "\n\n"),
        _ => s.to_string(),
    }
}

fn if_chain(r: &mut Rng) -> String {
    let pool: Vec<&str> = (0..r.range(1, 3)).map(|_| *r.pick(&CONDS)).collect();
    let bpool: Vec<&str> = (0..r.range(1, 3)).map(|_| *r.pick(&BLOCKS)).collect();
    let mut s = String::new();
    let n = r.range(0, 3);
    let c = { let x0: &str = *r.pick(&pool[..]); respell(r, x0) };
    let b = { let x0: &str = *r.pick(&bpool[..]); respell(r, x0) };
    s.push_str(&format!("if {c} then\n{b}\n"));
    for _ in 0..n {
        let c = { let x0: &str = *r.pick(&pool[..]); respell(r, x0) };
        let b = { let x0: &str = *r.pick(&bpool[..]); respell(r, x0) };
        s.push_str(&format!("elseif {c} then\n{b}\n"));
    }
    if r.chance(2, 3) {
        let b = { let x0: &str = *r.pick(&bpool[..]); respell(r, x0) };
        s.push_str(&format!("else\n{b}\n"));
    }
    s.push_str("end");
    s
}

fn swaps(r: &mut Rng) -> String {
    let pool: Vec<&str> = (0..r.range(2, 3)).map(|_| *r.pick(&TARGETS)).collect();
    let mut lines = Vec::new();
    for _ in 0..r.range(2, 5) {
        match r.below(8) {
            0 => lines.push((*r.pick(&["print(1)", "x = a or b\naorb = x", "x = a .. b\na..b = x", "t.x = a - b\na-b, c = t.x", "ab = a b = ab"])).to_string()),
            1 => { let a = *r.pick(&pool[..]); let b = *r.pick(&pool[..]); let c = *r.pick(&pool[..]); let d = *r.pick(&pool[..]); lines.push(format!("{a}, {b} = {c}, {d}")) }
            2 => { let a = *r.pick(&["a", "b"]); let b = *r.pick(&pool[..]); lines.push(format!("local {a} = {b}")) }
            _ => {
                let l = { let x0: &str = *r.pick(&pool[..]); respell(r, x0) };
                let v = { let x0: &str = *r.pick(&pool[..]); respell(r, x0) };
                lines.push(format!("{l} = {v}"));
            }
        }
    }
    lines.join("\n")
}

fn wrap(r: &mut Rng, body: &str) -> String {
    // a body that ends in `return` must stay last in its block
    match r.below(9) {
        0 | 1 => format!("do\n{body}\nend\n"),
        2 => format!("local function g(...)\n{body}\nend\nprint(g)\n"),
        3 => format!("if cond then\nprint(0)\nelse\n{body}\nend\n"),
        4 => format!("for _ = 1, 2 do\n{body}\nend\n"),
        5 => format!("local tbl = {{ f = function(...)\n{body}\nend }}\nprint(tbl)\n"),
        6 => format!("while cond do\nrepeat\ndo\n{body}\nend\nuntil cond\nend\n"),
        7 => format!("print((function(...)\n{body}\nend)())\n"),
        _ => format!("function t.m(...)\n{body}\nend\n"),
    }
}

fn checker(config: &str) -> Checker<toml::value::Value> {
    let config: CheckerConfig<toml::value::Value> = toml::from_str(config).unwrap();
    Checker::new(config, StandardLibrary::from_name("lua51").unwrap()).unwrap()
}

/// `;` anywhere, or a separator right before `}`: token text the syntax tree of the model does not keep
fn has_unmodelled_separators(ast: &Ast) -> bool {
    let mut prev_sep = false;
    for t in ast.nodes().tokens() {
        match t.token_type() {
            TokenType::Symbol { symbol: Symbol::Semicolon } => return true,
            TokenType::Symbol { symbol: Symbol::RightBrace } if prev_sep => return true,
            TokenType::Symbol { symbol: Symbol::Comma } => prev_sep = true,
            _ => prev_sep = false,
        }
    }
    false
}

pub fn same_case(r: &mut Rng, cases: &mut Cases) -> bool {
    let mut src = String::new();
    if r.chance(1, 4) {
        src.push_str(&gen_program(r).0);
        src.push('\n');
    }
    for _ in 0..r.range(1, 3) {
        let p = if r.chance(3, 5) { if_chain(r) } else { swaps(r) };
        if r.chance(1, 4) {
            src.push_str(&p);
            src.push('\n');
        } else {
            src.push_str(&wrap(r, &p));
        }
    }
    let ast = match full_moon::parse_fallible(&src, full_moon::LuaVersion::lua51()).into_result() {
        Ok(a) => a,
        Err(_) => return false,
    };
    let term = match astdump::chunk(&ast) {
        Some(t) => t,
        None => return false,
    };
    let flagged = has_unmodelled_separators(&ast);
    let counts = catch_unwind(AssertUnwindSafe(|| {
        let mut m = std::collections::BTreeMap::new();
        for d in checker("").test_on(&ast) {
            *m.entry(d.diagnostic.code.to_string()).or_insert(0usize) += 1;
        }
        m
    }));
    let counts = match counts {
        Ok(c) => c,
        Err(_) => return false,
    };
    let g = |k: &str| counts.get(k).copied().unwrap_or(0);
    cases.push(
        format!(
            "CSame {} {} {}%nat {}%nat {}%nat",
            term,
            gbool(flagged),
            g("ifs_same_cond"),
            g("if_same_then_else"),
            g("almost_swapped")
        ),
        json!({"kind": "same-text-lints", "source": src, "flagged": flagged,
               "counts": {"ifs_same_cond": g("ifs_same_cond"), "if_same_then_else": g("if_same_then_else"), "almost_swapped": g("almost_swapped")},
               "nontrivial": g("ifs_same_cond") + g("if_same_then_else") + g("almost_swapped") > 0}),
    );
    true
}

// ---------------------------------------------------------------- multiple_statements

fn sep(r: &mut Rng) -> &'static str {
    *r.pick(&[" ", " ", "\n", "\n", "; ", ";\n", "\n\n"])
}
fn gap(r: &mut Rng) -> &'static str {
    *r.pick(&[" ", " ", "\n"])
}

fn line_block(r: &mut Rng, depth: usize, in_loop: bool, allow_last: bool) -> String {
    let mut s = String::new();
    let n = r.below(3);
    for i in 0..n {
        if i > 0 {
            s.push_str(sep(r));
        }
        s.push_str(&line_stmt(r, depth, in_loop));
    }
    if allow_last && r.chance(2, 5) {
        if n > 0 {
            s.push_str(sep(r));
        }
        let last = match r.below(6) {
            0 if in_loop => "break".to_string(),
            1 => "return 1".to_string(),
            2 if depth < 2 => format!("return function(){}{}{}end", gap(r), line_block(r, depth + 1, false, true), gap(r)),
            3 => "return 1,\n2".to_string(),
            _ => "return".to_string(),
        };
        s.push_str(&last);
        if r.chance(1, 6) {
            s.push(';');
        }
    }
    s
}

fn line_stmt(r: &mut Rng, depth: usize, in_loop: bool) -> String {
    let k = if depth >= 3 { r.below(3) } else { r.below(9) };
    match k {
        0 => "f()".to_string(),
        1 => "g(1)".to_string(),
        2 => "local v = 1".to_string(),
        3 | 4 => {
            let cond = *r.pick(&["c", "c", "c", "c\n  or d", "(c\n)", "c and\nd"]);
            let mut s = format!("if {} then{}{}", cond, gap(r), line_block(r, depth + 1, in_loop, true));
            if r.chance(1, 4) {
                s.push_str(&format!("{}else{}{}", gap(r), gap(r), line_block(r, depth + 1, in_loop, true)));
            }
            s.push_str(gap(r));
            s.push_str("end");
            s
        }
        5 => format!("while c do{}{}{}end", gap(r), line_block(r, depth + 1, true, true), gap(r)),
        6 => format!("f(function(){}{}{}end)", gap(r), line_block(r, depth + 1, false, true), gap(r)),
        7 => format!("do{}{}{}end", gap(r), line_block(r, depth + 1, in_loop, true), gap(r)),
        _ => format!("x = {{{}1,{}2 }}", gap(r), gap(r)),
    }
}

struct Ev {
    start: usize,
    line: usize,
    if_info: Option<(usize, bool, bool)>,
}
#[derive(Default)]
struct EvVisitor {
    evs: Vec<Ev>,
}
impl Visitor for EvVisitor {
    fn visit_stmt(&mut self, stmt: &ast::Stmt) {
        let if_info = if let ast::Stmt::If(i) = stmt {
            Some((i.then_token().end_position().unwrap().line(), i.block().stmts().next().is_some(), i.block().last_stmt().is_some()))
        } else {
            None
        };
        self.evs.push(Ev { start: stmt.range().unwrap().0.bytes(), line: stmt.end_position().unwrap().line(), if_info });
    }
    fn visit_last_stmt(&mut self, stmt: &ast::LastStmt) {
        self.evs.push(Ev { start: stmt.range().unwrap().0.bytes(), line: stmt.end_position().unwrap().line(), if_info: None });
    }
}

pub fn lines_case(r: &mut Rng, cases: &mut Cases) -> bool {
    let mut src = String::new();
    let n = r.range(1, 5);
    for i in 0..n {
        if i > 0 {
            src.push_str(sep(r));
        }
        src.push_str(&line_stmt(r, 0, false));
    }
    if r.chance(1, 4) {
        src.push_str(sep(r));
        src.push_str("return");
    }
    src.push('\n');
    let ast = match full_moon::parse_fallible(&src, full_moon::LuaVersion::lua51()).into_result() {
        Ok(a) => a,
        Err(_) => return false,
    };
    let (cfg_name, cfg_term) = *r.pick(&[("break-return-only", "OBreakReturn"), ("break-return-only", "OBreakReturn"), ("allow", "OAllow"), ("deny", "ODeny")]);
    let config = format!("[config]\nmultiple_statements = {{ one_line_if = \"{cfg_name}\" }}\n");
    let reported = catch_unwind(AssertUnwindSafe(|| {
        checker(&config)
            .test_on(&ast)
            .into_iter()
            .filter(|d| d.diagnostic.code == "multiple_statements")
            .map(|d| d.diagnostic.primary_label.range.0 as usize)
            .collect::<Vec<_>>()
    }));
    let reported = match reported {
        Ok(x) => x,
        Err(_) => return false,
    };
    let mut v = EvVisitor::default();
    v.visit_ast(&ast);
    let evs = glist(v.evs.iter(), |e| {
        format!(
            "{{| sv_id := {}%N; sv_line := {}%N; sv_if := {} |}}",
            e.start,
            e.line,
            match e.if_info {
                Some((l, a, b)) => format!("Some ({}%N, {}, {})", l, gbool(a), gbool(b)),
                None => "None".to_string(),
            }
        )
    });
    cases.push(
        format!("CLines {} {} {}", cfg_term, evs, glist(reported.iter(), |x| format!("{}%N", x))),
        json!({"kind": "multiple_statements", "source": src, "one_line_if": cfg_name, "reported": reported, "events": v.evs.len(),
               "nontrivial": !reported.is_empty()}),
    );
    true
}
