//! Metamorphic twins for C13 (trivia rewrites) and C14 (consistent renaming), all lints.
use crate::astdump;
use crate::cases::Cases;
use crate::gal::*;
use crate::genlua::gen_program;
use crate::rng::Rng;
use full_moon::ast::*;
use full_moon::node::Node;
use full_moon::tokenizer::{TokenReference, TokenType};
use selene_lib::{standard_library::StandardLibrary, Checker, CheckerConfig, CheckerDiagnostic};
use serde_json::json;
use std::panic::{catch_unwind, AssertUnwindSafe};

const EXTRA_STD: &str = r#"
globals:
  old:
    args:
      - type: any
        required: false
    deprecated:
      message: old is deprecated
      replace:
        - new(%1)
  oldv:
    property: read-only
    deprecated:
      message: oldv is deprecated
  depp:
    args:
      - type: any
        required: false
      - type: any
        required: false
        deprecated:
          message: second parameter is deprecated
"#;

pub fn meta_std() -> StandardLibrary {
    let mut lib: StandardLibrary = serde_yaml::from_str(EXTRA_STD).unwrap();
    lib.extend(StandardLibrary::from_name("lua51").unwrap());
    lib
}

fn checker() -> Checker<toml::value::Value> {
    // global_usage is off by default and has a setting that reads a name: switch it on, with a pattern
    let config: CheckerConfig<toml::value::Value> =
        toml::from_str("[lints]\nglobal_usage = \"warn\"\n[config]\nglobal_usage = { ignore_pattern = \"^foo$\" }\n").unwrap();
    Checker::new(config, meta_std()).unwrap()
}

const TEMPLATES: [&str; 26] = [
    "local t, i, x = {}, 1, 2\nt[i] = x\nx = t[i]\n",
    "local a, c = {}, {}\na.b = c.d\nc.d = a.b\n",
    "local t, i = {}, 1\nold(t[i], -1)\nprint(t[i].x == 0/0, t[i] ~= 0/0)\n",
    "local t, i = {}, 1\nprint(t[i] == {}, { t[i] } ~= t)\n",
    "depp(1, t[i])\ndepp(t.a.b, - 1)\n",
    "local t = {}\nprint(type(t[1] == \"number\"))\nif t[1] then print(1) elseif t[1] then print(2) end\n",
    "local t = {}\nif t[1] then print(t[1]) else print(t[1]) end\n",
    "local f = function(a, b) return a end\nf(1, 2, f(3)[1])\n",
    "print(old)\n",
    "local v = oldv\nprint(v)\n",
    "old(1)\n",
    "local x = 1\nif type(x == \"number\") then print(x) end\n",
    "depp(1, nil)\n",
    "depp(1, 2)\n",
    "local t = {}\nprint(table.getn(t), oldv)\n",
    "for i = #old, 1 do print(i) end\n",
    "local a, b = 1, 2\na = b\nb = a\n",
    "local x = 5\nif x == 0/0 then end\nprint(1 / 0, x)\n",
    "local t = { a = 1, a = 2, 3 }\nprint(t == {})\n",
    "local s = \"\\m\"\nprint(s)  print(s)\n",
    "print(string.rev(\"a\"), math.clamp(1, 0, 2))\nstring.nope(1)\n",
    "_G.foo = 1\n_G.bar, _G.foo = 2, 3\nprint(_G.foo)\n",
    "local t = { [1] = 1, [1] = 2, 3, [2] = 4, [0x10] = 5, [16] = 6, [\"k\"] = 7, k = 8 }\nprint(t)\n",
    "local function f(a, b) return a end\nf(1, 2, 3)\nlocal t = { f = f }\nt.f(1, 2, 3)\nmath.max(1, 2)\nx0 = 1\n",
    "print\"one\"print\"two\"print\"three\"\nlocal a={}local b={}local c={}print(a,b,c)\n",
    "local t = {}\nfor i = #t, 1 do print(i) end\nfor i = #t, 0 do\n  print(i)\nend\nif (t) then end\nlocal p, q = 1\n",
];

pub fn fixtures() -> Vec<String> {
    let mut out = Vec::new();
    fn walk(dir: &std::path::Path, out: &mut Vec<String>) {
        if let Ok(rd) = std::fs::read_dir(dir) {
            let mut entries: Vec<_> = rd.flatten().map(|e| e.path()).collect();
            entries.sort();
            for p in entries {
                if p.is_dir() {
                    walk(&p, out);
                } else if p.extension().map(|e| e == "lua").unwrap_or(false) {
                    if let Ok(s) = std::fs::read_to_string(&p) {
                        out.push(s);
                    }
                }
            }
        }
    }
    walk(std::path::Path::new("/repo/selene-lib/tests"), &mut out);
    out
}

/// identifier tokens in variable position: (start, end, name)
struct VarToks(Vec<(usize, usize, String)>, std::collections::BTreeSet<usize>);

impl VarToks {
    /// a token that declares a local, a parameter or a loop variable
    fn decl(&mut self, t: &TokenReference) {
        self.1.insert(t.token().start_position().bytes());
        self.tok(t);
    }
    fn tok(&mut self, t: &TokenReference) {
        if let TokenType::Identifier { identifier } = t.token().token_type() {
            self.0.push((t.token().start_position().bytes(), t.token().end_position().bytes(), identifier.to_string()));
        }
    }
}

impl full_moon::visitors::Visitor for VarToks {
    fn visit_var(&mut self, v: &Var) {
        if let Var::Name(t) = v {
            self.tok(t);
        }
    }
    fn visit_prefix(&mut self, p: &Prefix) {
        if let Prefix::Name(t) = p {
            self.tok(t);
        }
    }
    fn visit_local_assignment(&mut self, l: &LocalAssignment) {
        for n in l.names() {
            self.decl(n);
        }
    }
    fn visit_function_body(&mut self, b: &FunctionBody) {
        for p in b.parameters() {
            if let Parameter::Name(t) = p {
                self.decl(t);
            }
        }
    }
    fn visit_generic_for(&mut self, g: &GenericFor) {
        for n in g.names() {
            self.decl(n);
        }
    }
    fn visit_numeric_for(&mut self, n: &NumericFor) {
        self.decl(n.index_variable());
    }
    fn visit_local_function(&mut self, f: &LocalFunction) {
        self.decl(f.name());
    }
    fn visit_function_declaration(&mut self, f: &FunctionDeclaration) {
        if let Some(first) = f.name().names().iter().next() {
            self.tok(first);
        }
    }
}

fn var_tokens(ast: &Ast) -> Vec<(usize, usize, String)> {
    var_tokens_decls(ast).0
}

fn var_tokens_decls(ast: &Ast) -> (Vec<(usize, usize, String)>, std::collections::BTreeSet<usize>) {
    use full_moon::visitors::Visitor;
    let mut v = VarToks(Vec::new(), Default::default());
    v.visit_ast(ast);
    v.0.sort();
    v.0.dedup();
    (v.0, v.1)
}

fn canon(ds: &[CheckerDiagnostic], fresh: Option<(&str, &str)>) -> Vec<(String, u32, u32, Vec<(u32, u32)>, String)> {
    let mut v: Vec<_> = ds
        .iter()
        .map(|d| {
            let dg = &d.diagnostic;
            let mut msg = dg.message.clone();
            for n in &dg.notes {
                msg.push('|');
                msg.push_str(n);
            }
            if let Some((fresh, orig)) = fresh {
                msg = msg.replace(fresh, orig);
            }
            (
                dg.code.to_string(),
                dg.primary_label.range.0,
                dg.primary_label.range.1,
                dg.secondary_labels.iter().map(|l| l.range).collect::<Vec<_>>(),
                msg,
            )
        })
        .collect();
    v.sort();
    v
}

fn diag_list_term(v: &[(String, u32, u32, Vec<(u32, u32)>, String)]) -> String {
    glist(v.iter(), |(c, s, e, sec, m)| {
        format!("({}, ({}%N, {}%N), {}, {})", gstr(c), s, e, glist(sec.iter(), |(a, b)| format!("({}%N, {}%N)", a, b)), gstr(m))
    })
}

fn lint(ck: &Checker<toml::value::Value>, src: &str) -> Option<(Ast, Vec<CheckerDiagnostic>)> {
    let ast = full_moon::parse_fallible(src, full_moon::LuaVersion::lua51()).into_result().ok()?;
    let ds = catch_unwind(AssertUnwindSafe(|| ck.test_on(&ast))).ok()?;
    Some((ast, ds))
}

fn lint_v(ck: &Checker<toml::value::Value>, src: &str, luau: bool) -> Option<(Ast, Vec<CheckerDiagnostic>)> {
    let v = if luau { full_moon::LuaVersion::luau() } else { full_moon::LuaVersion::lua51() };
    let ast = full_moon::parse_fallible(src, v).into_result().ok()?;
    let ds = catch_unwind(AssertUnwindSafe(|| ck.test_on(&ast))).ok()?;
    Some((ast, ds))
}

fn pick_program(r: &mut Rng, fx: &[String]) -> (String, &'static str) {
    if r.chance(1, 5) {
        ((*r.pick(&TEMPLATES)).to_string(), "template")
    } else if r.chance(1, 4) && !fx.is_empty() {
        (fx[r.below(fx.len())].clone(), "fixture")
    } else if r.chance(1, 4) {
        (crate::genfilter::gen_filter_program(r).src, "filter-program")
    } else {
        (gen_program(r).0, "generated")
    }
}

/// script variables that share a name with a library global (C14: the name must not matter)
const LIBNAMED: [&str; 23] = [
    "local math = {}\nx, math.y = 1, 2\nprint(math)\n",
    "local function f(table)\n  y, table.z = 1, 2\n  return table\nend\nprint(f)\n",
    "local os = {}\n_G.q, os.clock = 1, 2\nprint(os)\n",
    "local string = 1\nq, string = 2, 3\nprint(string)\n",
    "local table = {}\ntable.insert, table.foo = 1, 2\nprint(table.getn(table), table.zzz)\n",
    "local function g(math, os)\n  print(math.floor(1, 2, 3), os.nope, math.pi)\n  math.pi, os.x = 1, 2\nend\nprint(g)\n",
    "local queue = {}\ntable.insert(queue, 1)\nlocal function collect(table, value)\n  local seen = {}\n  table.insert(seen, value)\n  return table\nend\nprint(collect)\n",
    "local function collect(table, value)\n  local seen = {}\n  table.insert(seen, value)\n  return table\nend\nlocal queue = {}\ntable.insert(queue, 1)\nprint(collect)\n",
    "local log = {}\ndo\n  local table = { insert = print }\n  table.insert(log, 1)\n  table.sort(log)\nend\nlocal other = {}\ntable.insert(other, 2)\ntable.sort(other)\n",
    // names that number parsers accept as numbers (`inf`, `nan`, `infinity`), where lints read numbers
    "local inf = math.huge\nlocal t = { 1, 2 }\nfor i = #t, -inf do\n  print(i)\nend\nfor i = #t, inf do\n  print(i)\nend\n",
    "local nan, infinity = 0, 1\nlocal t = {}\nfor i = #t, -nan do print(i) end\nfor i = #t, -infinity do print(i) end\nprint(1 / nan, nan / nan, t == nan)\n",
    "local function f(inf, nan)\n  local t = { [inf] = 1, [nan] = 2, [-inf] = 3 }\n  for i = #t, -inf do print(t[i]) end\n  return inf / nan, 1 / inf\nend\nprint(f)\n",
    "local e1, x1 = 1, 2\nlocal t = {}\nfor i = #t, e1 do print(i) end\nfor i = #t, -x1 do print(i) end\nprint(e1 / x1)\n",
    "local aorb, a, b = 1, 2, 3\nlocal x\nx = a or b\naorb = x\nprint(aorb, x)\n",
    // names that are prefixes of one another, in the places where lints compare or print code text
    "local item, items = 1, { 2 }\nitem = items\nitems = item\nprint(item, items)\n",
    "local node, nodes = {}, {}\nnode.next = nodes.next\nnodes.next = node.next\nif node then print(1) elseif nodes then print(2) elseif node then print(3) end\n",
    // a script binding spelled like a library root, the library's own entry used outside its scope
    "local function size(table)\n  return #table\nend\nprint(table.getn({}), size)\nold(1)\n",
    "local function check(x)\n  local function assert(cond)\n    return cond\n  end\n  return assert(x)\nend\nassert(check(1), \"msg\")\nlocal function old(a) return a end\nprint(old(1, 2))\n",
    // a script variable used as a computed key next to fields spelled like it
    "local kind = \"size\"\nlocal defaults = {\n    kind = \"box\",\n    [kind] = 10,\n}\nprint(defaults, { [kind] = 1, [kind] = 2 }, { kind = 1, [\"kind\"] = 2 })\n",
    "local a, b = 1, 2\nlocal t = { a = 1, [a] = 2, b = 3, [b] = 4, [a] = 5 }\nprint(t.a, t.b, t[a], t[b])\n",
    "local math = {}\nprint((math).floor(7, 2), (math).nope, (math):floor(1))\nlocal function f(string)\n  return (string).format(1, 2), (string).rep()\nend\nprint(f)\n",
    "local _G = {}\n_G.counter = 1\nprint(_G.counter, _G.foo)\n",
    "local function f(_G)\n  _G.hits = (_G.hits or 0) + 1\n  return _G.foo, _G\nend\nprint(f)\n",
];

/// programs linted with the Luau library (table.clone exists): loop variables spelled like the fields they sit next to
const LUAU_NAMED: [&str; 5] = [
    "local function lastSeen(source)\n    local seen = {}\n    for key, value in pairs(source) do\n        seen.key = value\n    end\n    return seen\nend\nreturn lastSeen\n",
    "local function copy(source)\n    local out = {}\n    for key, value in pairs(source) do\n        out[key] = value\n    end\n    return out\nend\nreturn copy\n",
    "local out = {}\nfor i, v in ipairs(list) do\n  out.i = v\nend\nprint(out.i, out.v)\n",
    "local function index(list)\n    local byName = {}\n    for k, v in pairs(list) do\n        byName.k = v\n    end\n    return byName\nend\nreturn index\n",
    "local function first(items)\n    local res = {}\n    for idx, item in ipairs(items) do\n        res.idx = item\n    end\n    return res, items.idx\nend\nreturn first\n",
];

const RESERVED: [&str; 11] = ["self", "_", "type", "typeof", "require", "game", "script", "workspace", "plugin", "shared", "_ENV"];

pub fn generate_c14(seed: u64, n: usize, _thorough: bool) -> Cases {
    let mut cases = Cases::new("C14");
    let mut rng = Rng::new(seed);
    let ck_lua51 = checker();
    let ck_luau: Checker<toml::value::Value> = Checker::new(CheckerConfig::default(), StandardLibrary::from_name("luau").unwrap()).unwrap();
    let fx = fixtures();
    let lib = meta_std();
    let in_lib = |name: &str| lib.globals.keys().any(|k| k.split('.').any(|seg| seg == name));
    for i in 0..n {
        let mut r = rng.fork(i as u64);
        let (src, origin) = if r.chance(1, 6) { ((*r.pick(&LIBNAMED)).to_string(), "library-named") }
            else if r.chance(1, 6) { ((*r.pick(&LUAU_NAMED)).to_string(), "luau-library") }
            else { pick_program(&mut r, &fx) };
        let ck = if origin == "luau-library" { &ck_luau } else { &ck_lua51 };
        let (ast, ds) = match lint(ck, &src) { Some(x) => x, None => continue };
        let (toks, decl_starts) = var_tokens_decls(&ast);
        // script-introduced names: declared as a variable somewhere (scope analysis), not reserved / library / ignored
        let ctx = selene_lib::lints::AstContext::from_ast(&ast);
        let mut names: Vec<String> = ctx.scope_manager.variables.iter().map(|(_, v)| v.name.clone()).collect();
        names.sort();
        names.dedup();
        // a library-named script variable is eligible only if every variable of that name is read somewhere
        // (an unused one is the known class C02-K8: unused_variable stays silent on library names)
        // (and every variable of that name is a declared local, parameter or loop variable: a script *global* that
        // shares a library name is the library's entry as far as Lua is concerned)
        let read_somewhere = |nm: &str| {
            ctx.scope_manager.variables.iter().filter(|(_, v)| v.name == nm).all(|(_, v)| {
                decl_starts.contains(&v.identifiers[0].0)
                    && v.references.iter().any(|rid| ctx.scope_manager.references.get(*rid).map(|rf| rf.read).unwrap_or(false))
            })
        };
        names.retain(|nm| !RESERVED.contains(&nm.as_str()) && (!in_lib(nm) || ((origin == "library-named" || origin == "generated") && read_somewhere(nm))) && (!nm.starts_with('_') || (nm == "_G" && origin == "library-named")) && nm != "..."
            && !src.contains(&format!("\"{nm}\"")) && !src.contains(&format!("'{nm}'")));
        if names.is_empty() {
            continue;
        }
        let name = names[r.below(names.len())].clone();
        let fresh = format!("{}_zq{}", name, r.below(10));
        if src.contains(&fresh) {
            continue;
        }
        // the occurrences to rename: the declaring identifiers of the script variables of that name and the
        // references the scope analysis resolved to them (an unresolved `table.insert` elsewhere keeps its name)
        let mut owned: std::collections::BTreeSet<usize> = std::collections::BTreeSet::new();
        for (_, v) in ctx.scope_manager.variables.iter().filter(|(_, v)| v.name == name) {
            for id in &v.identifiers {
                owned.insert(id.0);
            }
            for rid in &v.references {
                if let Some(rf) = ctx.scope_manager.references.get(*rid) {
                    owned.insert(rf.identifier.0);
                }
            }
        }
        let mine = |t: &(usize, usize, String)| t.2 == name && (!in_lib(&name) || owned.contains(&t.0));
        let starts: Vec<usize> = toks.iter().filter(|t| mine(t)).map(|t| t.0).collect();
        let mut twin = String::new();
        let mut last = 0;
        for t in &toks {
            if mine(t) {
                twin.push_str(&src[last..t.0]);
                twin.push_str(&fresh);
                last = t.1;
            }
        }
        twin.push_str(&src[last..]);
        let (ast2, ds2) = match lint(ck, &twin) { Some(x) => x, None => continue };
        let delta = fresh.len() - name.len();
        let (c1, c2) = (astdump::chunk(&ast), astdump::chunk(&ast2));
        let ast_terms = match (c1, c2) {
            // the tree comparison renames by name: only when every token of that name was renamed
            (Some(a), Some(b)) if r.chance(1, 2) && toks.iter().all(|t| t.2 != name || mine(t)) => format!("(Some ({}, {}))", a, b),
            _ => "None".to_string(),
        };
        cases.push(
            format!(
                "CRename {} {} {} {}%N {} {} {}",
                gstr(&name), gstr(&fresh), glist(starts.iter(), |s| format!("{}%N", s)), delta,
                diag_list_term(&canon(&ds, None)), diag_list_term(&canon(&ds2, Some((&fresh, &name)))), ast_terms
            ),
            json!({"kind": "rename", "origin": origin, "source": src, "twin": twin, "name": name, "fresh": fresh,
                   "occurrences": starts.len(), "diagnostics": ds.len(), "nontrivial": !ds.is_empty() && starts.len() > 1}),
        );
    }
    cases
}

/// Insert trivia at token boundaries without joining or splitting lines of code.
pub fn generate_c13(seed: u64, n: usize, _thorough: bool) -> Cases {
    let mut cases = Cases::new("C13");
    let mut rng = Rng::new(seed);
    let ck = checker();
    let fx = fixtures();
    // systematic: every template x every token x {space, block comment} after the token
    // roblox_base plus what the generated Roblox library would add for the element lints: classes and the Roact / React roots
    let mut roblox_lib: StandardLibrary = serde_yaml::from_str(
        "name: roblox\nglobals:\n  Roact:\n    any: true\n  React:\n    any: true\nroblox_classes:\n  Frame:\n    superclass: GuiObject\n    properties: []\n    events: []\n  GuiObject:\n    superclass: Instance\n    properties:\n      - Size\n    events:\n      - InputBegan\n  Instance:\n    superclass: \"<<<ROOT>>>\"\n    properties:\n      - Name\n    events: []\n").unwrap();
    roblox_lib.extend(StandardLibrary::roblox_base());
    let ck_roblox: Checker<toml::value::Value> = Checker::new(CheckerConfig::default(), roblox_lib).unwrap();
    const ROBLOX_TEMPLATES: [&str; 14] = [
        "local e = Roact.createElement\nlocal function Panel()\n\treturn e(\"Frame\", {\n\t\tSize = UDim2.new(1, 0, 1, 0),\n\t\tColour = \"red\",\n\t})\nend\nprint(Panel)\n",
        "local function Row()\n\treturn React.createElement(\"Frame\", {\n\t\tWidht = 10,\n\t})\nend\nprint(Row, Roact.createElement(\"Frame\", { Nme = 1 }))\n",
        "local u = UDim2.new(-1, 0, -1, 0)\nprint(u)\n",
        "local c = Color3.new(-1, 2.5, t[1])\nprint(c)\n",
        "local u = UDim2.new(0, -5, 0, (5))\nprint(u)\n",
        "local u = UDim2.new(-0.5, 0)\nprint(u)\n",
        "local c = Color3.new(255, 0, 0)\nprint(c)\n",
        "local u = UDim2.new(1, 0, 1, 0)\nprint(u)\n",
        "local u = UDim2.new(0, 5, 0, 5)\nprint(u)\n",
        "local u = UDim2.new(1, 1)\nprint(u)\n",
        "local u = UDim2.new(0.5, 10, 0.5, 10)\nprint(u)\n",
        "local c = Color3.new(0.5, 1, 2)\nprint(c)\n",
        "local function clone(t)\n  local r = {}\n  -- selene: allow(manual_table_clone)\n  for k, v in pairs(t) do\n    r[k] = v\n  end\n  return r\nend\nprint(clone)\n",
        "local function clone(t)\n  local r = {}\n  for k, v in pairs(t) do\n    r[k] = v\n  end\n  return r\nend\nprint(clone)\n",
    ];
    for (src, ckr) in TEMPLATES.iter().map(|s| (s, &ck)).chain(ROBLOX_TEMPLATES.iter().map(|s| (s, &ck_roblox))) {
        let ck = ckr;
        let (ast, ds) = match lint_v(ck, src, ckr as *const _ == &ck_roblox as *const _) { Some(x) => x, None => continue };
        let mut ends: Vec<usize> = ast.tokens().map(|t| t.token().end_position().bytes()).filter(|e| *e > 0).collect();
        ends.sort();
        ends.dedup();
        // an ordinary comment line before every token that starts a line (also between a filter comment and its statement)
        let mut line_starts: Vec<usize> = ast
            .tokens()
            .map(|t| t.token().start_position().bytes())
            .filter_map(|st| {
                let ls = src[..st].rfind('\n').map(|p| p + 1).unwrap_or(0);
                if src[ls..st].trim().is_empty() { Some(ls) } else { None }
            })
            .collect();
        line_starts.sort();
        line_starts.dedup();
        for ls in line_starts {
            let text = "-- note\n";
            let twin = format!("{}{}{}", &src[..ls], text, &src[ls..]);
            let ds2 = match lint_v(ck, &twin, ckr as *const _ == &ck_roblox as *const _) { Some(x) => x.1, None => continue };
            cases.push(
                format!("CTrivia [({}%N, {}%N)] {} {}", ls, text.len(), diag_list_term(&canon(&ds, None)), diag_list_term(&canon(&ds2, None))),
                json!({"kind": "trivia-systematic", "origin": "template", "source": src, "twin": twin,
                       "insertions": [[ls, text, "line-before"]], "diagnostics": ds.len(), "nontrivial": !ds.is_empty()}),
            );
        }
        for e in ends {
            for text in [" ", " --[[c]]"] {
                let twin = format!("{}{}{}", &src[..e], text, &src[e..]);
                let ds2 = match lint_v(ck, &twin, ckr as *const _ == &ck_roblox as *const _) { Some(x) => x.1, None => continue };
                cases.push(
                    format!("CTrivia [({}%N, {}%N)] {} {}", e, text.len(), diag_list_term(&canon(&ds, None)), diag_list_term(&canon(&ds2, None))),
                    json!({"kind": "trivia-systematic", "origin": "template", "source": src, "twin": twin,
                           "insertions": [[e, text, "after-token"]], "diagnostics": ds.len(), "nontrivial": !ds.is_empty()}),
                );
            }
        }
    }
    for i in 0..n {
        let mut r = rng.fork(i as u64);
        let (src, origin) = pick_program(&mut r, &fx);
        if src.contains("selene:") && origin == "fixture" {
            // fixtures with filters are exercised by C08; trivia next to filter comments is another property
        }
        let (ast, ds) = match lint(&ck, &src) { Some(x) => x, None => continue };
        // token boundaries: (offset, is_end_of_token)
        let mut toks: Vec<(usize, usize)> = ast
            .tokens()
            .map(|t| (t.token().start_position().bytes(), t.token().end_position().bytes()))
            .filter(|(s, e)| e > s)
            .collect();
        toks.sort();
        if toks.is_empty() {
            continue;
        }
        let k = r.range(1, 4);
        let mut ins: Vec<(usize, String, &'static str)> = Vec::new();
        for _ in 0..k {
            let (s, e) = toks[r.below(toks.len())];
            match r.below(5) {
                0 => ins.push((e, " ".to_string(), "space-after")),
                1 => ins.push((e, " --[[c]]".to_string(), "block-comment-after")),
                2 => ins.push((s, "  ".to_string(), "indent-before")),
                3 => ins.push((s, "--[[c]] ".to_string(), "block-comment-before")),
                _ => {
                    // a blank line / comment line before a token that starts a line
                    let line_start = src[..s].rfind('\n').map(|p| p + 1).unwrap_or(0);
                    if src[line_start..s].trim().is_empty() {
                        ins.push((line_start, if r.chance(1, 2) { "\n".to_string() } else { "-- note\n".to_string() }, "line-before"));
                    } else {
                        ins.push((e, "\t".to_string(), "tab-after"));
                    }
                }
            }
        }
        ins.sort();
        ins.dedup_by(|a, b| a.0 == b.0);
        let mut twin = String::new();
        let mut last = 0;
        for (o, text, _) in &ins {
            twin.push_str(&src[last..*o]);
            twin.push_str(text);
            last = *o;
        }
        twin.push_str(&src[last..]);
        let (_ast2, ds2) = match lint(&ck, &twin) { Some(x) => x, None => continue };
        cases.push(
            format!(
                "CTrivia {} {} {}",
                glist(ins.iter(), |(o, t, _)| format!("({}%N, {}%N)", o, t.len())),
                diag_list_term(&canon(&ds, None)), diag_list_term(&canon(&ds2, None))
            ),
            json!({"kind": "trivia", "origin": origin, "source": src, "twin": twin,
                   "insertions": ins.iter().map(|(o, t, k)| json!([o, t, k])).collect::<Vec<_>>(),
                   "diagnostics": ds.len(), "nontrivial": !ds.is_empty()}),
        );
    }
    cases
}
