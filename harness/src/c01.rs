//! Scope family (C01-C03): the real ScopeManager on generated Lua 5.1 programs.
use crate::astdump;
use crate::cases::Cases;
use crate::gal::*;
use crate::genlua::{gen_program, gen_unused_program};
use crate::rng::Rng;
use selene_lib::lints::AstContext;
use serde_json::json;
use std::panic::{catch_unwind, AssertUnwindSafe};

fn grng(r: (usize, usize)) -> String {
    format!("({}%N, {}%N)", r.0, r.1)
}

/// ScopeManager -> Gallina: references and variables in arena order.
/// (The scope types live in a private module: they are used through inference and Debug only.)
pub fn scope_term(ctx: &AstContext) -> (String, String, usize, usize) {
    let sm = &ctx.scope_manager;
    let initial = sm.initial_scope;
    let refs = glist(sm.references.iter(), |(_, r)| {
        format!(
            "{{| i_range := {}; i_name := {}; i_read := {}; i_write := {}; i_resolved := {}; i_initial := {} |}}",
            grng(r.identifier),
            gstr(&r.name),
            gbool(r.read),
            match format!("{:?}", r.write).as_str() {
                "None" => "None",
                "Some(Assign)" => "(Some WAssign)",
                _ => "(Some WExtend)",
            },
            gopt(r.resolved.map(|id| sm.variables[id].identifiers[0]), grng),
            gbool(Some(r.scope_id) == initial)
        )
    });
    let vars = glist(sm.variables.iter(), |(_, v)| {
        format!(
            "{{| iv_range := {}; iv_name := {}; iv_shadowed := {}; iv_self := {}; iv_refs := {} |}}",
            grng(v.identifiers[0]),
            gstr(&v.name),
            gopt(v.shadowed.map(|id| sm.variables[id].identifiers[0]), grng),
            gbool(v.is_self),
            glist(v.references.iter(), |rid| grng(sm.references[*rid].identifier))
        )
    });
    (refs, vars, sm.references.len(), sm.variables.len())
}

pub fn generate(seed: u64, n: usize, _thorough: bool) -> Cases {
    let mut cases = Cases::new("C01");
    let mut rng = Rng::new(seed);
    let lib = selene_lib::standard_library::StandardLibrary::from_name("lua51").unwrap();
    let mut roots: Vec<String> = lib.globals.keys().map(|k| k.split('.').next().unwrap().to_string()).collect();
    roots.sort();
    roots.dedup();
    let roots_term = glist(roots.iter(), |s| gstr(s));
    cases.prelude = format!("Definition the_lib : Lib.lib := {}.", glib(&lib));
    // the options of unused_variable (ignore_pattern default "^_", allow_unused_self default true) and of
    // shadowing (ignore_pattern default "^_"): every key present or absent; what an absent key means is the
    // documented default, applied here and not taken from the implementation
    const UNUSED: [(&str, &str, bool); 8] = [
        ("", "^_", true),
        ("unused_variable = { ignore_pattern = \"^_\", allow_unused_self = true }", "^_", true),
        ("unused_variable = { ignore_pattern = \"^[ab]$\", allow_unused_self = false }", "^[ab]$", false),
        ("unused_variable = { ignore_pattern = \"^$\", allow_unused_self = true }", "^$", true),
        ("unused_variable = { allow_unused_self = false }", "^_", false),
        ("unused_variable = { allow_unused_self = true }", "^_", true),
        ("unused_variable = { ignore_pattern = \"^[ab]$\" }", "^[ab]$", true),
        ("unused_variable = { ignore_pattern = \"^_u\" }", "^_u", true),
    ];
    const SHADOW: [(&str, &str); 4] = [
        ("", "^_"),
        ("shadowing = { ignore_pattern = \"^_\" }", "^_"),
        ("shadowing = { ignore_pattern = \"^[ab]$\" }", "^[ab]$"),
        ("shadowing = { ignore_pattern = \"^$\" }", "^$"),
    ];
    let mut checkers = Vec::new();
    for (utext, upat, allow) in UNUSED.iter() {
        for (stext, spat) in SHADOW.iter() {
            let text = format!("[config]\n{utext}\n{stext}\n");
            let config: selene_lib::CheckerConfig<toml::value::Value> = toml::from_str(&text).unwrap();
            let ck: selene_lib::Checker<toml::value::Value> = selene_lib::Checker::new(config, lib.clone()).unwrap();
            checkers.push((regex::Regex::new(upat).unwrap(), *allow, text, ck, regex::Regex::new(spat).unwrap()));
        }
    }
    for i in 0..n {
        let mut r = rng.fork(i as u64);
        let (src, shapes) = if r.chance(1, 5) { gen_unused_program(&mut r) } else { gen_program(&mut r) };
        let ast = match full_moon::parse_fallible(&src, full_moon::LuaVersion::lua51()).into_result() {
            Ok(a) => a,
            Err(_) => continue,
        };
        let chunk = match astdump::chunk(&ast) {
            Some(c) => c,
            None => continue,
        };
        let ctx = match catch_unwind(AssertUnwindSafe(|| AstContext::from_ast(&ast))) {
            Ok(c) => c,
            Err(_) => {
                cases.push(format!("CScopePanic {}", chunk), json!({"kind": "scope-panic", "source": src}));
                continue;
            }
        };
        let (refs, vars, nr, nv) = scope_term(&ctx);
        let which = if r.chance(1, 2) { 0 } else { r.below(checkers.len()) };
        let (ignore_re, allow_self, pattern, checker, shadow_re) = &checkers[which];
        let diags = match catch_unwind(AssertUnwindSafe(|| checker.test_on(&ast))) { Ok(d) => d, Err(_) => continue };
        let mut ignored: Vec<String> = ctx.scope_manager.variables.iter().map(|(_, v)| v.name.clone()).filter(|n| ignore_re.is_match(n)).collect();
        ignored.sort();
        ignored.dedup();
        let mut sh_ignored: Vec<String> = ctx.scope_manager.variables.iter().map(|(_, v)| v.name.clone()).filter(|n| shadow_re.is_match(n)).collect();
        sh_ignored.sort();
        sh_ignored.dedup();
        let rng = |d: &selene_lib::CheckerDiagnostic| grng((d.diagnostic.primary_label.range.0 as usize, d.diagnostic.primary_label.range.1 as usize));
        let undefined = glist(diags.iter().filter(|d| d.diagnostic.code == "undefined_variable"), |d| rng(d));
        let unused = glist(diags.iter().filter(|d| d.diagnostic.code == "unused_variable"), |d| {
            format!("({}, {})", rng(d), gbool(d.diagnostic.message.contains("assigned a value")))
        });
        let shadowing = glist(diags.iter().filter(|d| d.diagnostic.code == "shadowing"), |d| {
            let s = &d.diagnostic.secondary_labels[0];
            format!("({}, {})", rng(d), grng((s.range.0 as usize, s.range.1 as usize)))
        });
        cases.push(
            format!("CScope {} {} {} {} {} {} {} the_lib {} {} {}", chunk, refs, vars, roots_term, undefined, shadowing, unused,
                    glist(ignored.iter(), |s| gstr(s)), gbool(*allow_self), glist(sh_ignored.iter(), |s| gstr(s))),
            json!({"kind": "scope", "source": src, "references": nr, "variables": nv, "shapes": shapes,
                   "config": pattern, "allow_unused_self": allow_self,
                   "nontrivial": nv > 0 && nr > 1}),
        );
    }
    cases
}
