//! C15: extend / base chains / `+` folds through the real StandardLibrary::extend and from_name.
use crate::cases::Cases;
use crate::gal::*;
use crate::genlib::*;
use crate::rng::Rng;
use selene_lib::standard_library::StandardLibrary;
use serde_json::json;

fn yaml(l: &StandardLibrary) -> String {
    serde_yaml::to_string(l).unwrap_or_else(|e| format!("<unserialisable: {e}>"))
}

fn raw_builtin(name: &str) -> StandardLibrary {
    let path = format!("/repo/selene-lib/default_std/{name}.yml");
    let text = std::fs::read_to_string(&path).expect("default std file");
    serde_yaml::from_str(&text).expect("default std parses")
}

pub fn builtin_chain(name: &str) -> Vec<StandardLibrary> {
    let mut chain = Vec::new();
    let mut cur = Some(name.to_string());
    while let Some(n) = cur {
        let file = if n == "roblox" { "roblox_base".to_string() } else { n.clone() };
        let l = raw_builtin(&file);
        cur = l.base.clone();
        chain.push(l);
    }
    chain
}

pub fn generate(seed: u64, n: usize, thorough: bool) -> Cases {
    let mut cases = Cases::new("C15");
    let mut rng = Rng::new(seed);

    // shipped chains first (corpus): from_name vs the model's fold over the raw files
    let mut names = vec!["lua51", "lua52", "lua53", "luau"];
    if thorough {
        names.push("roblox");
    }
    for name in names {
        let chain = builtin_chain(name);
        let imp = if name == "roblox" {
            StandardLibrary::roblox_base()
        } else {
            StandardLibrary::from_name(name).unwrap()
        };
        let term = format!(
            "CChain {} {} {}",
            glib(&chain[0]),
            glist(chain[1..].iter(), glib),
            glib(&imp)
        );
        cases.push(
            term,
            json!({"kind": "builtin-chain", "name": name,
                   "chain": chain.iter().map(|l| l.base.clone()).collect::<Vec<_>>(),
                   "impl_versions": imp.lua_versions.iter().map(|v| v.to_str().to_string()).collect::<Vec<_>>(),
                   "impl_globals": imp.globals.len()}),
        );
    }

    for i in 0..n {
        let mut r = rng.fork(i as u64);
        let o = LibOpts {
            max_keys: if r.chance(1, 4) { 8 } else { 3 },
            max_depth: 3,
            removed: true,
            structs: r.chance(1, 2),
            versions: true,
            rich_fields: r.chance(1, 3),
        };
        match r.below(4) {
            0 | 1 => {
                let d = gen_lib(&mut r, &o);
                let b = gen_lib(&mut r, &o);
                let mut imp = d.clone();
                imp.extend(b.clone());
                cases.push(
                    format!("CPair {} {} {}", glib(&d), glib(&b), glib(&imp)),
                    json!({"kind": "pair", "derived": yaml(&d), "base": yaml(&b), "impl": yaml(&imp),
                           "removed": d.globals.values().chain(b.globals.values()).filter(|f| f.field_kind == selene_lib::standard_library::FieldKind::Removed).count(),
                           "both_versions": !d.lua_versions.is_empty() && !b.lua_versions.is_empty(),
                           "shared_keys": d.globals.keys().filter(|k| b.globals.contains_key(*k)).count()}),
                );
            }
            2 => {
                let len = r.range(2, 4);
                let libs: Vec<_> = (0..len).map(|_| gen_lib(&mut r, &o)).collect();
                // most derived first: l0.extend(l1.extend(l2 ...))
                let mut acc = libs[len - 1].clone();
                for l in libs[..len - 1].iter().rev() {
                    let mut d = l.clone();
                    d.extend(acc);
                    acc = d;
                }
                cases.push(
                    format!("CChain {} {} {}", glib(&libs[0]), glist(libs[1..].iter(), glib), glib(&acc)),
                    json!({"kind": "chain", "len": len, "libs": libs.iter().map(yaml).collect::<Vec<_>>(), "impl": yaml(&acc)}),
                );
            }
            _ => {
                let len = r.range(2, 4);
                let libs: Vec<_> = (0..len).map(|_| gen_lib(&mut r, &o)).collect();
                let mut acc = libs[0].clone();
                for l in &libs[1..] {
                    acc.extend(l.clone());
                }
                cases.push(
                    format!("CPlus {} {} {}", glib(&libs[0]), glist(libs[1..].iter(), glib), glib(&acc)),
                    json!({"kind": "plus", "len": len, "libs": libs.iter().map(yaml).collect::<Vec<_>>(), "impl": yaml(&acc)}),
                );
            }
        }
    }
    cases
}
