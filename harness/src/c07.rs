//! C07: library root x binding construct x use shape, inside and outside the binding's scope.
use crate::astdump;
use crate::cases::Cases;
use crate::gal::*;
use crate::meta::meta_std;
use crate::rng::Rng;
use selene_lib::{Checker, CheckerConfig, CheckerDiagnostic};
use serde_json::json;
use std::panic::{catch_unwind, AssertUnwindSafe};

const CODES: [&str; 3] = ["incorrect_standard_library_use", "deprecated", "must_use"];
const ROOTS: [&str; 12] = ["print", "math", "string", "table", "tostring", "pairs", "unpack", "os", "old", "oldv", "depp", "require"];

/// (text with NAME and BODY placeholders, whether BODY is inside the scope)
const BINDINGS: [(&str, &str); 14] = [
    ("local NAME = {}\nBODY", "local"),
    ("local NAME\nBODY", "local-novalue"),
    ("local a, NAME = 1, 2\nBODY", "local-multi"),
    ("local function NAME(...) return ... end\nBODY", "local-function"),
    ("local function wrap(NAME)\nBODY\nend\n", "parameter"),
    ("local wrap = function(a, NAME)\nBODY\nend\n", "parameter-expr"),
    ("for NAME = 1, 2 do\nBODY\nend\n", "numeric-for"),
    ("for NAME in next, {} do\nBODY\nend\n", "generic-for"),
    ("for _, NAME in next, {} do\nBODY\nend\n", "generic-for-2"),
    // a global of that name defined by the script itself, in the scope where it is defined
    ("NAME = {}\nBODY", "global-assign"),
    ("function NAME(...) return ... end\nBODY", "global-function"),
    ("NAME, y9 = {}, 1\nBODY", "global-multi-first"),
    ("y9, NAME = 1, {}\nBODY", "global-multi-last"),
    ("local function w1()\nNAME = {}\nend\nlocal function w2()\nNAME = {}\nBODY\nend\n", "global-assign-sibling-scopes"),
];

const USES: [(&str, &str); 28] = [
    ("local _ = NAME\n", "read"),
    ("local _ = NAME.floor\n", "field"),
    ("local _ = NAME.a.b\n", "deep-field"),
    ("NAME(1)\n", "call-stmt"),
    ("NAME.floor(1.5)\n", "field-call-stmt"),
    ("local _ = NAME.floor(1.5)\n", "field-call"),
    ("NAME:format(1)\n", "method-call"),
    ("NAME.x = 1\n", "field-assign"),
    ("NAME = 1\n", "assign"),
    ("local _ = NAME.getn({})\n", "deprecated-field-call"),
    ("NAME.floor(\"x\")\n", "bad-argument"),
    ("NAME(1, nil)\n", "call-nil-arg"),
    ("print(NAME(2))\n", "nested-argument"),
    ("y0, NAME.pi = 1, 2\nNAME.huge, y1 = 1, 2\ny2, y3, NAME.x = 1, 2, 3\n", "multiple-assign"),
    ("show { NAME.floor }\n", "table-call-argument"),
    ("show { k = NAME.getn, [NAME.pi] = NAME.floor(1.5) }\n", "table-call-argument-keys"),
    ("local _ = { NAME.floor, NAME.getn({}) }\n", "table-constructor"),
    ("show(t[NAME.pi], -NAME.pi, NAME.pi + 1, not NAME.getn)\n", "operands"),
    ("obj:method(NAME.floor, NAME.getn({}))\n", "method-arguments"),
    ("local _ = (NAME).floor\n", "parenthesised"),
    ("show \"s\"\nshow(NAME.floor \"x\")\n", "string-call"),
    ("while NAME.getn({}) do break end\n", "loop-condition"),
    ("for _ = NAME.pi, NAME.floor(2.5) do end\n", "for-bounds"),
    ("show(function() return NAME.floor(1.5), NAME.getn end)\n", "closure-body"),
    ("local keep = 1, NAME.floor(1.5)\nshow(keep)\n", "surplus-local-value"),
    ("y4 = 0, NAME.getn({})\n", "surplus-assigned-value"),
    ("NAME(1, 2)\n", "call-deprecated-argument"),
    ("local _ = NAME(1, x0), NAME.new(\"a\", x0)\n", "call-deprecated-argument-expr"),
];

/// scope-boundary wrappers for open bindings: (text, the use is inside the binding's scope)
const WRAPPERS: [(&str, bool, &str); 10] = [
    ("if x then\nBIND\nelseif UEXPR then\nend\n", false, "elseif-condition-after-branch"),
    ("if x then\nBIND\nelse\nUSE\nend\n", false, "else-after-branch"),
    ("if x then\nelseif y then\nBIND\nelseif UEXPR then\nend\n", false, "elseif-after-elseif"),
    ("while x do\nBIND\nend\nUSE\n", false, "after-while"),
    ("repeat\nBIND\nuntil UEXPR\n", true, "until-condition"),
    ("local function f()\nBIND\nend\nUSE\n", false, "after-function"),
    ("if x then\nBIND\nUSE\nend\n", true, "same-branch"),
    ("BIND\ndo\nUSE\nend\n", true, "nested-do"),
    ("BIND\nlocal g = function() USE end\n", true, "closure"),
    ("for i = 1, 2 do\nBIND\nend\nwhile UEXPR do end\n", false, "after-for"),
];
const OPEN_BINDINGS: [&str; 3] = ["local NAME = {}", "local function NAME(...) return ... end", "local a, NAME = 1, 2"];
const UEXPRS: [&str; 5] = ["NAME", "NAME.floor", "NAME.floor(1.5)", "NAME(1)", "NAME.getn({})"];
const USTMTS: [&str; 5] = ["local _ = NAME", "NAME.floor(1.5)", "NAME(1)", "NAME.x = 1", "local _ = NAME.getn({})"];

fn diag_term(ds: &[&CheckerDiagnostic], shift: i64) -> String {
    glist(ds.iter(), |d| {
        let dg = &d.diagnostic;
        format!(
            "({}, ({}%N, {}%N), {})",
            gstr(dg.code),
            (dg.primary_label.range.0 as i64 + shift),
            (dg.primary_label.range.1 as i64 + shift),
            gstr(&dg.message)
        )
    })
}

pub fn generate(seed: u64, n: usize, thorough: bool) -> Cases {
    let mut cases = Cases::new("C07");
    let mut rng = Rng::new(seed);
    let ck: Checker<toml::value::Value> = Checker::new(CheckerConfig::default(), meta_std()).unwrap();
    let lint = |src: &str| -> Option<(full_moon::ast::Ast, Vec<CheckerDiagnostic>)> {
        let ast = full_moon::parse_fallible(src, full_moon::LuaVersion::lua51()).into_result().ok()?;
        let ds = catch_unwind(AssertUnwindSafe(|| ck.test_on(&ast))).ok()?;
        Some((ast, ds))
    };
    // the whole matrix is 12 x 9 x 28 x 2 = 6048 programs; quick samples it, thorough enumerates it
    let mut combos: Vec<(usize, usize, usize)> = Vec::new();
    for r in 0..ROOTS.len() {
        for b in 0..BINDINGS.len() {
            for u in 0..USES.len() {
                combos.push((r, b, u));
            }
        }
    }
    if !thorough {
        // a seeded sample, but every binding x use pair at least once
        let mut sample = Vec::new();
        for b in 0..BINDINGS.len() {
            for u in 0..USES.len() {
                sample.push((rng.below(ROOTS.len()), b, u));
            }
        }
        for _ in 0..n {
            sample.push(combos[rng.below(combos.len())]);
        }
        combos = sample;
    }
    // scope boundaries: wrappers x open bindings x uses
    let mut wcombos: Vec<(usize, usize, usize, usize)> = Vec::new();
    for w in 0..WRAPPERS.len() {
        for b in 0..OPEN_BINDINGS.len() {
            for u in 0..UEXPRS.len() {
                wcombos.push((w, b, u, if thorough { 0 } else { rng.below(ROOTS.len()) }));
            }
        }
    }
    for (wi, bi, ui, ri0) in wcombos {
        let roots: Vec<usize> = if thorough { (0..ROOTS.len()).collect() } else { vec![ri0] };
        for ri in roots {
            let name = ROOTS[ri];
            let (wtext, is_inside, wkind) = WRAPPERS[wi];
            let bind = OPEN_BINDINGS[bi].replace("NAME", name);
            let (utext, marker) = if wtext.contains("UEXPR") { (UEXPRS[ui].replace("NAME", name), "UEXPR") } else { (USTMTS[ui].replace("NAME", name), "USE") };
            let prog = wtext.replace("BIND", &bind).replace(marker, &utext);
            let blank: String = bind.chars().map(|c| if c == '\n' { '\n' } else { ' ' }).collect();
            let base = wtext.replace("BIND", &blank).replace(marker, &utext);
            let use_off = wtext.replace("BIND", &bind).find(marker).unwrap();
            let (ast_p, ds_p) = match lint(&prog) { Some(x) => x, None => continue };
            let (_, ds_b) = match lint(&base) { Some(x) => x, None => continue };
            let in_use = |d: &&CheckerDiagnostic| {
                CODES.contains(&d.diagnostic.code) && (d.diagnostic.primary_label.range.0 as usize) >= use_off
                    && (d.diagnostic.primary_label.range.0 as usize) < use_off + utext.len()
            };
            let d_p: Vec<&CheckerDiagnostic> = ds_p.iter().filter(in_use).collect();
            let d_b: Vec<&CheckerDiagnostic> = ds_b.iter().filter(in_use).collect();
            let root = use_off + utext.find(name).unwrap();
            let c_p = match astdump::chunk(&ast_p) { Some(a) => a, None => continue };
            cases.push(
                format!("CBoundary {} {} {}%N {} {}", gbool(is_inside), c_p, root, diag_term(&d_p, 0), diag_term(&d_b, 0)),
                json!({"kind": wkind, "use": utext, "root": name, "program": prog, "inside": is_inside,
                       "diags": d_p.len(), "diags_baseline": d_b.len(), "nontrivial": !d_b.is_empty()}),
            );
        }
    }
    for (ri, bi, ui) in combos {
        let name = ROOTS[ri];
        let (btext, bkind) = BINDINGS[bi];
        let (utext, ukind) = USES[ui];
        let use_src = utext.replace("NAME", name);
        // half of the programs hold the same use twice: once where the name is the library's and once where it is re-bound
        // (an answer remembered from one of them must not decide the other)
        let twice = rng.chance(1, 2);
        let prefix = if twice { use_src.clone() } else { String::new() };
        // inside: the use sits in the BODY position
        let inside = format!("{}{}", prefix, btext.replace("NAME", name).replace("BODY", &use_src));
        let use_off_inside = prefix.len() + btext.replace("NAME", name).find("BODY").unwrap();
        // outside: the binding is closed in a do-block (or ends by itself), the use follows it
        let body_in_closed = if twice { use_src.as_str() } else { "" };
        let closed = if btext.ends_with("BODY") {
            format!("do\n{}end\n", btext.replace("NAME", name).replace("BODY", body_in_closed))
        } else {
            btext.replace("NAME", name).replace("BODY", body_in_closed)
        };
        let outside = format!("{}{}", closed, use_src);
        let baseline = format!("{}{}", " ".repeat(closed.len()).replace(' ', " "), use_src);
        let baseline = {
            // keep line structure: spaces, but newlines stay newlines
            let mut b: String = closed.chars().map(|c| if c == '\n' { '\n' } else { ' ' }).collect();
            b.push_str(&use_src);
            let _ = baseline;
            b
        };
        let (ast_in, ds_in) = match lint(&inside) { Some(x) => x, None => continue };
        let (ast_out, ds_out) = match lint(&outside) { Some(x) => x, None => continue };
        let (_, ds_base) = match lint(&baseline) { Some(x) => x, None => continue };
        let in_use = |d: &&CheckerDiagnostic, off: usize, len: usize| {
            CODES.contains(&d.diagnostic.code) && (d.diagnostic.primary_label.range.0 as usize) >= off
                && (d.diagnostic.primary_label.range.0 as usize) < off + len
        };
        let d_in: Vec<&CheckerDiagnostic> = ds_in.iter().filter(|d| in_use(d, use_off_inside, use_src.len())).collect();
        let d_out: Vec<&CheckerDiagnostic> = ds_out.iter().filter(|d| in_use(d, closed.len(), use_src.len())).collect();
        let d_base: Vec<&CheckerDiagnostic> = ds_base.iter().filter(|d| in_use(d, closed.len(), use_src.len())).collect();
        // byte of the root identifier of the (first) use, for the model's gate
        let root_in = use_off_inside + use_src.find(name).unwrap();
        let ukind = if twice { format!("{ukind}+twice") } else { ukind.to_string() };
        let root_out = closed.len() + use_src.find(name).unwrap();
        let (c_in, c_out) = match (astdump::chunk(&ast_in), astdump::chunk(&ast_out)) { (Some(a), Some(b)) => (a, b), _ => continue };
        cases.push(
            format!("CRebound {} {}%N {} {} {}%N {} {}", c_in, root_in, diag_term(&d_in, 0), c_out, root_out, diag_term(&d_out, 0), diag_term(&d_base, 0)),
            json!({"kind": bkind, "use": ukind, "root": name, "inside": inside, "outside": outside,
                   "diags_inside": d_in.len(), "diags_outside": d_out.len(), "diags_baseline": d_base.len(),
                   "nontrivial": !d_base.is_empty()}),
        );
    }
    cases
}
