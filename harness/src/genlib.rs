//! Generator of standard libraries over a small key alphabet.
use crate::rng::Rng;
use selene_lib::standard_library::*;
use std::collections::BTreeMap;

pub struct LibOpts {
    pub max_keys: usize,
    pub max_depth: usize,
    pub removed: bool,
    pub structs: bool,
    pub versions: bool,
    pub rich_fields: bool,
}

pub const SEGS: [&str; 4] = ["a", "b", "c", "*"];
pub const STRUCTS: [&str; 2] = ["S", "T"];

pub fn gen_deprecated(r: &mut Rng) -> Option<Deprecated> {
    if r.chance(1, 5) {
        Some(Deprecated {
            message: (*r.pick(&["old", "use other", ""])).to_string(),
            replace: if r.chance(1, 2) {
                (0..r.range(1, 3))
                    .map(|_| (*r.pick(&["new(%1)", "x(%...)", "%%", "f(%2, %1)", "g(%0)", "h(%3)", "%99999999999", "k(%1", "%", "%.", "m(%01)"])).to_string())
                    .collect()
            } else {
                vec![]
            },
        })
    } else {
        None
    }
}

pub fn gen_argument(r: &mut Rng, rich: bool) -> Argument {
    let argument_type = match r.below(if rich { 10 } else { 8 }) {
        0 => ArgumentType::Any,
        1 => ArgumentType::Bool,
        2 => ArgumentType::Function,
        3 => ArgumentType::Nil,
        4 => ArgumentType::Number,
        5 => ArgumentType::String,
        6 => ArgumentType::Table,
        7 => ArgumentType::Vararg,
        8 => ArgumentType::Constant(
            (0..r.range(0, 3)) // an empty list is a legal (if useless) declaration
                .map(|_| (*r.pick(&["count", "collect", "a b", "x"])).to_string())
                .collect(),
        ),
        _ => ArgumentType::Display((*r.pick(&["Instance", "T"])).to_string()),
    };
    Argument {
        required: match r.below(4) {
            0 => Required::NotRequired,
            1 if rich => Required::Required(Some("need this".to_string())),
            _ => Required::Required(None),
        },
        argument_type,
        observes: match r.below(6) {
            0 => Observes::Read,
            1 => Observes::Write,
            _ => Observes::ReadWrite,
        },
        deprecated: if rich { gen_deprecated(r) } else { None },
    }
}

pub fn gen_field(r: &mut Rng, o: &LibOpts) -> Field {
    let kind = match r.weighted(&[
        2,
        4,
        4,
        if o.structs { 3 } else { 0 },
        if o.removed { 3 } else { 0 },
    ]) {
        0 => FieldKind::Any,
        1 => FieldKind::Function(FunctionBehavior {
            arguments: (0..r.below(4)).map(|_| gen_argument(r, o.rich_fields)).collect(),
            method: r.chance(1, 4),
            must_use: r.chance(1, 3),
        }),
        2 => FieldKind::Property(match r.below(4) {
            0 => PropertyWritability::ReadOnly,
            1 => PropertyWritability::NewFields,
            2 => PropertyWritability::OverrideFields,
            _ => PropertyWritability::FullWrite,
        }),
        3 => FieldKind::Struct((*r.pick(&STRUCTS)).to_string()),
        _ => FieldKind::Removed,
    };
    Field {
        field_kind: kind,
        deprecated: if o.rich_fields { gen_deprecated(r) } else { None },
    }
}

pub fn gen_key(r: &mut Rng, max_depth: usize) -> String {
    let d = r.range(1, max_depth);
    let segs: Vec<&str> = (0..d)
        .map(|i| {
            if i == 0 {
                // a root is rarely `*`
                if r.chance(1, 12) {
                    "*"
                } else {
                    *r.pick(&SEGS[..3])
                }
            } else {
                *r.pick(&SEGS)
            }
        })
        .collect();
    segs.join(".")
}

pub fn gen_fmap(r: &mut Rng, o: &LibOpts) -> BTreeMap<String, Field> {
    let n = r.below(o.max_keys + 1);
    let mut m = BTreeMap::new();
    for _ in 0..n {
        m.insert(gen_key(r, o.max_depth), gen_field(r, o));
    }
    m
}

pub fn gen_versions(r: &mut Rng) -> Vec<LuaVersion> {
    let all = [
        LuaVersion::Lua51,
        LuaVersion::Lua52,
        LuaVersion::Lua53,
        LuaVersion::Lua54,
        LuaVersion::Luau,
        LuaVersion::LuaJIT,
    ];
    match r.below(5) {
        0 | 1 => vec![],
        2 => vec![r.pick(&all).clone()],
        3 => vec![r.pick(&all).clone(), r.pick(&all).clone()],
        _ => {
            if r.chance(1, 4) {
                vec![LuaVersion::Unknown("lua99".to_string())]
            } else {
                vec![r.pick(&all).clone()]
            }
        }
    }
}

pub fn gen_lib(r: &mut Rng, o: &LibOpts) -> StandardLibrary {
    let mut l = StandardLibrary::default();
    l.globals = gen_fmap(r, o);
    if o.structs {
        for s in STRUCTS {
            if r.chance(2, 3) {
                let so = LibOpts {
                    max_keys: 4,
                    max_depth: 3,
                    removed: false,
                    structs: true,
                    versions: false,
                    rich_fields: o.rich_fields,
                };
                l.structs.insert(s.to_string(), gen_fmap(r, &so));
            }
        }
    }
    if o.versions {
        l.lua_versions = gen_versions(r);
    }
    l
}
