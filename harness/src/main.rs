//! Verification harness: generates inputs, runs selene (linked from /repo's working tree) on them
//! and writes Gallina case files that coqc evaluates against the Coq models and specifications.
mod astdump;
mod c01;
mod c04;
mod c04same;
mod c05;
mod c06;
mod c07;
mod c08;
mod c10;
mod c11;
mod c12;
mod genfilter;
mod genlua;
mod c15;
mod c16;
mod c17;
mod cases;
mod gal;
mod genlib;
mod lint;
mod meta;
mod rng;

use std::path::PathBuf;

pub struct Args {
    pub cmd: String,
    pub seed: u64,
    pub n: usize,
    pub shards: usize,
    pub out: PathBuf,
    pub only: Option<usize>,
    pub thorough: bool,
    pub rest: Vec<String>,
}

fn parse_args() -> Args {
    let mut it = std::env::args().skip(1);
    let cmd = it.next().unwrap_or_else(|| "help".into());
    let mut a = Args {
        cmd,
        seed: 0,
        n: 100,
        shards: 16,
        out: PathBuf::from("."),
        only: None,
        thorough: false,
        rest: vec![],
    };
    while let Some(x) = it.next() {
        match x.as_str() {
            "--seed" => a.seed = it.next().unwrap().parse().unwrap(),
            "--n" => a.n = it.next().unwrap().parse().unwrap(),
            "--shards" => a.shards = it.next().unwrap().parse().unwrap(),
            "--out" => a.out = PathBuf::from(it.next().unwrap()),
            "--only" => a.only = Some(it.next().unwrap().parse().unwrap()),
            "--thorough" => a.thorough = true,
            other => a.rest.push(other.to_string()),
        }
    }
    a
}

fn main() {
    // panics inside selene are outcomes, not harness crashes: keep them quiet
    std::panic::set_hook(Box::new(|_| {}));
    let a = parse_args();
    match a.cmd.as_str() {
        "c07" => c07::generate(a.seed, a.n, a.thorough).write(&a.out, a.shards, a.only),
        "c08" => c08::generate(a.seed, a.n, a.thorough).write(&a.out, a.shards, a.only),
        "c10" => c10::generate(a.seed, a.n, a.thorough).write(&a.out, a.shards, a.only),
        "c11" => c11::generate(a.seed, a.n, a.thorough).write(&a.out, a.shards, a.only),
        "c12" => c12::generate(a.seed, a.n, a.thorough).write(&a.out, a.shards, a.only),
        "c13" => meta::generate_c13(a.seed, a.n, a.thorough).write(&a.out, a.shards, a.only),
        "c14" => meta::generate_c14(a.seed, a.n, a.thorough).write(&a.out, a.shards, a.only),
        "c15" => c15::generate(a.seed, a.n, a.thorough).write(&a.out, a.shards, a.only),
        "c01" => c01::generate(a.seed, a.n, a.thorough).write(&a.out, a.shards, a.only),
        "c04" => c04::generate(a.seed, a.n, a.thorough).write(&a.out, a.shards, a.only),
        "c05" => c05::generate(a.seed, a.n, a.thorough).write(&a.out, a.shards, a.only),
        "c06" => c06::generate(a.seed, a.n, a.thorough).write(&a.out, a.shards, a.only),
        "c16" => c16::generate(a.seed, a.n, a.thorough).write(&a.out, a.shards, a.only),
        "c17" => c17::generate(a.seed, a.n, a.thorough).write(&a.out, a.shards, a.only),
        "lint" => lint::run(&a.rest),
        _ => {
            eprintln!("usage: vharness <c15|...> --seed S --n N --shards K --out DIR [--only I] [--thorough]");
            std::process::exit(2);
        }
    }
}
