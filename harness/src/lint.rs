//! `vharness lint`: run the real Checker on files, JSON per file (used by CLI-level properties).
use selene_lib::{standard_library::StandardLibrary, Checker, CheckerConfig, CheckerDiagnostic};
use serde_json::{json, Value};
use std::panic::{catch_unwind, AssertUnwindSafe};

pub fn load_std(name: &str) -> Option<StandardLibrary> {
    // `a+b` chains and files on disk are the CLI's business; here: built-in names or a yml/toml path
    if name.ends_with(".yml") || name.ends_with(".yaml") {
        let text = std::fs::read_to_string(name).ok()?;
        let mut l: StandardLibrary = serde_yaml::from_str(&text).ok()?;
        if let Some(b) = l.base.clone() {
            if let Some(base) = load_std(&b) {
                l.extend(base);
            }
        }
        return Some(l);
    }
    if name == "roblox" {
        return Some(StandardLibrary::roblox_base());
    }
    StandardLibrary::from_name(name)
}

pub fn diag_json(d: &CheckerDiagnostic) -> Value {
    json!({
        "code": d.diagnostic.code,
        "severity": format!("{:?}", d.severity),
        "start": d.diagnostic.primary_label.range.0,
        "end": d.diagnostic.primary_label.range.1,
        "message": d.diagnostic.message,
        "label": d.diagnostic.primary_label.message,
        "notes": d.diagnostic.notes,
        "secondary": d.diagnostic.secondary_labels.iter().map(|l| json!([l.range.0, l.range.1, l.message])).collect::<Vec<_>>(),
    })
}

pub fn make_checker(config_text: &str, std_override: Option<&str>) -> Result<(Checker<toml::value::Value>, full_moon::LuaVersion), String> {
    let config: CheckerConfig<toml::value::Value> = toml::from_str(config_text).map_err(|e| e.to_string())?;
    let std_name = std_override.map(|s| s.to_string()).unwrap_or_else(|| config.std().to_string());
    let lib = load_std(&std_name).ok_or_else(|| format!("std {std_name} not found"))?;
    let (version, _errs) = lib.lua_version();
    let checker = Checker::new(config, lib).map_err(|e| e.to_string())?;
    Ok((checker, version))
}

pub fn lint_source(checker: &Checker<toml::value::Value>, version: full_moon::LuaVersion, src: &str) -> Value {
    let r = catch_unwind(AssertUnwindSafe(|| {
        match full_moon::parse_fallible(src, version).into_result() {
            Ok(ast) => {
                let mut ds = checker.test_on(&ast);
                ds.sort_by_key(|d| d.diagnostic.start_position());
                json!({"parse_errors": null, "diags": ds.iter().map(diag_json).collect::<Vec<_>>()})
            }
            Err(errors) => json!({"parse_errors": errors.len(), "diags": []}),
        }
    }));
    match r {
        Ok(v) => v,
        Err(_) => json!({"panic": true}),
    }
}

pub fn run(rest: &[String]) {
    let mut config_text = String::new();
    let mut std_override = None;
    let mut files = Vec::new();
    let mut it = rest.iter();
    while let Some(a) = it.next() {
        match a.as_str() {
            "--config" => config_text = std::fs::read_to_string(it.next().unwrap()).unwrap_or_default(),
            "--std" => std_override = Some(it.next().unwrap().clone()),
            f => files.push(f.to_string()),
        }
    }
    let (checker, version) = match make_checker(&config_text, std_override.as_deref()) {
        Ok(x) => x,
        Err(e) => {
            println!("{}", json!({"error": e}));
            return;
        }
    };
    for f in files {
        let bytes = std::fs::read(&f).unwrap_or_default();
        let src = String::from_utf8_lossy(&bytes);
        let mut v = lint_source(&checker, version, &src);
        v["file"] = Value::from(f);
        println!("{v}");
    }
}
