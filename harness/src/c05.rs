//! C05: one call to a standard-library function per case: generated definitions (every mix of
//! required / optional / vararg / constant-list / display parameters, methods through structs) and the
//! shipped libraries; arguments of every literal kind and spelling; the real lint's diagnostics are
//! parsed back into `problem`s for Std/CallCheck.v.
use crate::astdump;
use crate::cases::Cases;
use crate::gal::*;
use crate::genlib::gen_argument;
use crate::rng::Rng;
use full_moon::ast::{self, Call, Expression, FunctionArgs, Stmt, Suffix};
use full_moon::node::Node;
use full_moon::tokenizer::{StringLiteralQuoteType, TokenReference, TokenType};
use selene_lib::{standard_library::*, Checker, CheckerConfig};
use serde_json::json;
use std::collections::BTreeMap;
use std::panic::{catch_unwind, AssertUnwindSafe};

fn func(args: Vec<Argument>, method: bool) -> Field {
    Field {
        field_kind: FieldKind::Function(FunctionBehavior { arguments: args, method, must_use: false }),
        deprecated: None,
    }
}

const CONSTS: [&str; 5] = ["count", "collect", "a b", "x", "step"];

fn gen_args(r: &mut Rng) -> Vec<Argument> {
    let n = *r.pick(&[0, 1, 1, 2, 2, 3, 4]);
    let mut v: Vec<Argument> = (0..n)
        .map(|_| {
            let mut a = gen_argument(r, true);
            a.deprecated = None;
            if let ArgumentType::Constant(cs) = &mut a.argument_type {
                *cs = (0..r.range(1, 3)).map(|_| (*r.pick(&CONSTS)).to_string()).collect();
            }
            a
        })
        .collect();
    // the shapes of real libraries more often than uniformly random ones
    match r.below(6) {
        0 | 1 => {
            // required first, then optional, maybe a vararg last
            v.sort_by_key(|a| a.required == Required::NotRequired);
            for a in v.iter_mut() {
                if a.argument_type == ArgumentType::Vararg {
                    a.argument_type = ArgumentType::Number;
                }
            }
            if r.chance(1, 3) {
                v.push(Argument {
                    required: if r.chance(1, 2) { Required::NotRequired } else { Required::Required(None) },
                    argument_type: ArgumentType::Vararg,
                    observes: Observes::ReadWrite,
                    deprecated: None,
                });
            }
        }
        2 => {
            if let Some(a) = v.first_mut() {
                a.argument_type = ArgumentType::Constant(vec!["count".into(), "collect".into()]);
            }
        }
        _ => {}
    }
    v
}

/// a library with functions at plain, nested and struct-method positions
fn gen_library(r: &mut Rng) -> (StandardLibrary, Vec<(String, bool)>) {
    let mut globals = BTreeMap::new();
    let mut s = BTreeMap::new();
    let mut calls = vec![];
    globals.insert("f".to_string(), func(gen_args(r), false));
    calls.push(("f".to_string(), false));
    globals.insert("t.g".to_string(), func(gen_args(r), false));
    calls.push(("t.g".to_string(), false));
    globals.insert("t.u.h".to_string(), func(gen_args(r), r.chance(1, 4)));
    calls.push(("t.u.h".to_string(), false));
    s.insert("m".to_string(), func(gen_args(r), true));
    s.insert("n".to_string(), func(gen_args(r), false));
    globals.insert("obj".to_string(), Field { field_kind: FieldKind::Struct("S".to_string()), deprecated: None });
    calls.push(("obj.m".to_string(), true));
    calls.push(("obj.n".to_string(), false));
    let mut structs = BTreeMap::new();
    structs.insert("S".to_string(), s);
    let mut l = StandardLibrary::default();
    l.globals = globals;
    l.structs = structs;
    (l, calls)
}

const NUMBERS: [&str; 8] = ["1", "0", "0x10", "1e3", ".5", "3.", "0xA", "1E-2"];
const VARS: [&str; 4] = ["x", "y.z", "x[1]", "q.k"];
const CALLS: [&str; 4] = ["g()", "x.y()", "x:z(1)", "g(1)(2)"];

fn spell(r: &mut Rng, content: &str) -> String {
    match r.below(7) {
        0 => format!("'{content}'"),
        1 | 2 => format!("\"{content}\""),
        3 => format!("[[{content}]]"),
        4 => format!("[==[{content}]==]"),
        5 => format!("[[\n{content}]]"),
        _ => format!("[=[{content}]=]"),
    }
}

fn gen_string(r: &mut Rng, want: Option<&Argument>) -> String {
    if let Some(Argument { argument_type: ArgumentType::Constant(cs), .. }) = want {
        if r.chance(3, 4) && !cs.is_empty() {
            let c = r.pick(cs).clone();
            if r.chance(1, 12) && c == "count" {
                return "\"cou\\110t\"".to_string();
            }
            return spell(r, &c);
        }
    }
    let c = (*r.pick(&["count", "zzz", "", "a b", "]", "x", "é"])).to_string();
    if r.chance(1, 15) {
        return (*r.pick(&["\"a\\\"b\"", "'\\n'", "\"\\\\\""])).to_string();
    }
    spell(r, &c)
}

fn gen_expr(r: &mut Rng, depth: usize, want: Option<&Argument>, allow_multi: bool) -> String {
    // bias towards the declared type so that satisfied calls are common
    if let Some(a) = want {
        if r.chance(2, 5) {
            match &a.argument_type {
                ArgumentType::Bool => return (*r.pick(&["true", "false", "not x", "x == y", "1 < 2"])).to_string(),
                ArgumentType::Number => return (*r.pick(&["1", "0x10", "-1", "#q", "1 + 2", "2 ^ x", "x % 2", "(1)", "- 0x2"])).to_string(),
                ArgumentType::String | ArgumentType::Constant(_) => {
                    return if r.chance(1, 5) { (*r.pick(&["\"a\" .. x", "x .. \"b\""])).to_string() } else { gen_string(r, want) }
                }
                ArgumentType::Table => return (*r.pick(&["{}", "{1, 2}", "{ a = 1 }"])).to_string(),
                ArgumentType::Function => return (*r.pick(&["function() end", "function(a) return a end"])).to_string(),
                ArgumentType::Nil => return "nil".to_string(),
                _ => {}
            }
        }
    }
    match r.below(if depth == 0 { 12 } else { 18 }) {
        0 => "nil".to_string(),
        1 => (*r.pick(&["true", "false"])).to_string(),
        2 | 3 => (*r.pick(&NUMBERS)).to_string(),
        4 | 5 => gen_string(r, want),
        6 => "function() end".to_string(),
        7 => (*r.pick(&["{}", "{1}", "{ k = \"v\" }"])).to_string(),
        8 | 9 => (*r.pick(&VARS)).to_string(),
        10 => {
            if allow_multi || r.chance(1, 2) {
                (*r.pick(&CALLS)).to_string()
            } else {
                "x".to_string()
            }
        }
        11 => {
            if allow_multi {
                "...".to_string()
            } else {
                "(...)".to_string()
            }
        }
        12 => format!("({})", gen_expr(r, depth - 1, want, true)),
        13 => format!("{} {}", r.pick(&["-", "not", "#", "- "]), gen_expr(r, depth - 1, want, false)),
        14 | 15 => {
            let op = *r.pick(&["+", "-", "*", "/", "..", "==", "~=", "<", "<=", ">", ">=", "^", "%", "and", "or"]);
            format!("{} {} {}", gen_expr(r, depth - 1, want, false), op, gen_expr(r, depth - 1, want, false))
        }
        16 => format!("-{}", gen_string(r, None)),
        _ => format!("{} + {}", gen_string(r, None), gen_string(r, None)),
    }
}

fn string_tokens(fa: &FunctionArgs, out: &mut Vec<(String, String)>) {
    let mut tok = |t: &TokenReference| {
        if let TokenType::StringLiteral { literal, quote_type, .. } = t.token().token_type() {
            let mut content = literal.to_string();
            if *quote_type == StringLiteralQuoteType::Brackets {
                if let Some(rest) = content.strip_prefix("\r\n").or_else(|| content.strip_prefix('\n')) {
                    content = rest.to_string();
                }
            }
            out.push((t.token().to_string(), content));
        }
    };
    match fa {
        FunctionArgs::Parentheses { arguments, .. } => {
            for a in arguments {
                if let Expression::String(t) = a {
                    tok(t);
                }
            }
        }
        FunctionArgs::String(t) => tok(t),
        _ => {}
    }
}

fn argtype_of_name(s: &str) -> Option<&'static str> {
    Some(match s {
        "any" => "AAny",
        "bool" => "ABool",
        "function" => "AFunction",
        "nil" => "ANil",
        "number" => "ANumber",
        "string" => "Lib.AString",
        "table" => "Lib.ATable",
        "..." => "AVararg",
        _ => return None,
    })
}

pub fn generate(seed: u64, n: usize, thorough: bool) -> Cases {
    let mut cases = Cases::new("C05");
    let mut rng = Rng::new(seed);
    let shipped: Vec<StandardLibrary> = ["lua51", "lua52", "luau"].iter().filter_map(|n| StandardLibrary::from_name(n)).collect();
    let mut i = 0;
    let mut attempts = 0;
    while i < n && attempts < n * 20 {
        attempts += 1;
        let mut r = rng.fork(attempts as u64);
        // library and callee
        let (lib, path, through_struct) = if r.chance(1, 4) && !shipped.is_empty() {
            let l = r.pick(&shipped).clone();
            let fs: Vec<&String> = l
                .globals
                .iter()
                .filter(|(k, f)| matches!(f.field_kind, FieldKind::Function(_)) && !k.contains('*'))
                .map(|(k, _)| k)
                .collect();
            let p = (*r.pick(&fs)).clone();
            (l, p, false)
        } else {
            let (l, calls) = gen_library(&mut r);
            let (p, s) = r.pick(&calls).clone();
            (l, p, s)
        };
        let names: Vec<String> = path.split('.').map(|s| s.to_string()).collect();
        let field = match lib.find_global(&names) {
            Some(f) => f.clone(),
            None => continue,
        };
        let fb = match &field.field_kind {
            FieldKind::Function(b) => b.clone(),
            _ => continue,
        };
        // call style: mostly the right one
        let right_method = fb.method;
        let use_method = if r.chance(1, 6) { !right_method } else { right_method } && names.len() >= 2;
        let callee = if use_method {
            format!("{}:{}", names[..names.len() - 1].join("."), names[names.len() - 1])
        } else {
            path.clone()
        };
        // arguments
        let total = fb.arguments.len();
        let k = match r.below(10) {
            0 => 0,
            1 => total + 1,
            2 => total + 2,
            3 | 4 => total,
            5 => fb.arguments.iter().filter(|a| a.required != Required::NotRequired).count(),
            _ => r.range(0, total + 1),
        };
        let depth = if thorough && r.chance(1, 3) { 2 } else { 1 };
        let sugar = r.below(12);
        let args_text = if sugar == 0 {
            gen_string(&mut r, fb.arguments.first())
        } else if sugar == 1 {
            (*r.pick(&["{}", "{ 1, 2 }", "{ a = 1 }"])).to_string()
        } else {
            let mut parts = vec![];
            for j in 0..k {
                let last = j + 1 == k;
                let multi = last && r.chance(1, 2);
                parts.push(gen_expr(&mut r, depth, fb.arguments.get(j), multi));
            }
            format!("({})", parts.join(if r.chance(1, 5) { " , " } else { ", " }))
        };
        let mut src = format!("local function w(...)\n  {}{}{}\nend\n", callee, if sugar <= 1 && r.chance(1, 2) { " " } else { "" }, args_text);
        if r.chance(1, 5) {
            // a file with CRLF line endings: a long-bracket string that starts with a line break starts with "\r\n"
            src = src.replace('\n', "\r\n");
        }
        // parse and locate the call
        let ast = match full_moon::parse_fallible(&src, full_moon::LuaVersion::lua51()).into_result() {
            Ok(a) => a,
            Err(_) => continue,
        };
        let body = match ast.nodes().stmts().next() {
            Some(Stmt::LocalFunction(f)) => f.body().block().clone(),
            _ => continue,
        };
        let call = match body.stmts().next() {
            Some(Stmt::FunctionCall(c)) => c.clone(),
            _ => continue,
        };
        // exactly prefix, index suffixes, then one call suffix
        let sfx: Vec<&Suffix> = call.suffixes().collect();
        let (fargs, is_method): (&FunctionArgs, bool) = match sfx.last() {
            Some(Suffix::Call(Call::AnonymousCall(a))) => (a, false),
            Some(Suffix::Call(Call::MethodCall(m))) => (m.args(), true),
            _ => continue,
        };
        if sfx[..sfx.len() - 1].iter().any(|s| matches!(s, Suffix::Call(_))) {
            continue;
        }
        let args_term = match astdump::args(fargs) {
            Some(t) => t,
            None => continue,
        };
        let arg_ranges: Vec<(usize, usize)> = match fargs {
            FunctionArgs::Parentheses { arguments, .. } => arguments.iter().map(|a| { let (s, e) = a.range().unwrap(); (s.bytes(), e.bytes()) }).collect(),
            FunctionArgs::String(t) => { let (s, e) = t.range().unwrap(); vec![(s.bytes(), e.bytes())] }
            FunctionArgs::TableConstructor(t) => { let (s, e) = t.range().unwrap(); vec![(s.bytes(), e.bytes())] }
            _ => continue,
        };
        let mut strs = vec![];
        string_tokens(fargs, &mut strs);
        // the real lint
        let diags = catch_unwind(AssertUnwindSafe(|| {
            let checker: Checker<toml::value::Value> = Checker::new(CheckerConfig::default(), lib.clone()).unwrap();
            checker
                .test_on(&ast)
                .into_iter()
                .filter(|d| d.diagnostic.code == "incorrect_standard_library_use")
                .map(|d| (d.diagnostic.message.clone(), d.diagnostic.primary_label.range, d.diagnostic.primary_label.message.clone()))
                .collect::<Vec<_>>()
        }));
        let diags = match diags {
            Ok(d) => d,
            Err(_) => {
                cases.push(
                    format!("CPanic"),
                    json!({"kind": "panic", "source": src, "callee": path, "nontrivial": true}),
                );
                i += 1;
                continue;
            }
        };
        let mut problems = vec![];
        let mut unparsed = vec![];
        for (msg, range, label) in &diags {
            if msg.ends_with("is not a method") {
                problems.push("PMethod true".to_string());
            } else if msg.ends_with("is a method") {
                problems.push("PMethod false".to_string());
            } else if msg.ends_with("requires use of the vararg") {
                problems.push("PVarargUnused".to_string());
            } else if let Some(p) = msg.find("` requires ") {
                let rest = &msg[p + "` requires ".len()..];
                let nums: Vec<usize> = rest.split(|c: char| !c.is_ascii_digit()).filter(|s| !s.is_empty()).filter_map(|s| s.parse().ok()).collect();
                if nums.len() == 2 {
                    problems.push(format!("PCount {}%nat {}%nat", nums[0], nums[1]));
                } else {
                    unparsed.push(msg.clone());
                }
            } else if msg.starts_with("use of standard_library function") {
                let idx = arg_ranges.iter().position(|(s, e)| (*s as u32, *e as u32) == *range);
                let recv = label.as_ref().and_then(|l| l.rsplit("received `").next().map(|s| s.trim_end_matches('`').to_string()));
                match (idx, recv.as_deref().and_then(argtype_of_name)) {
                    (Some(ix), Some(t)) => problems.push(format!("PType {}%nat {}", ix, t)),
                    _ => unparsed.push(format!("{msg} / {label:?}")),
                }
            } else {
                unparsed.push(msg.clone());
            }
        }
        let fterm = format!(
            "{{| fn_args := {}; fn_method := {}; fn_must_use := {} |}}",
            glist(fb.arguments.iter(), gargument),
            gbool(fb.method),
            gbool(fb.must_use)
        );
        cases.push(
            format!(
                "CCall {} {} {} {} {} {}",
                fterm,
                gbool(is_method),
                args_term,
                glist(problems.iter(), |p| format!("({p})")),
                glist(strs.iter(), |(raw, c)| format!("({}, {})", gstr(raw), gstr(c))),
                gbool(unparsed.is_empty())
            ),
            json!({"kind": if through_struct { "struct-call" } else if lib.name.is_some() || lib.globals.len() > 10 { "shipped" } else { "generated" },
                   "source": src, "callee": path, "definition": serde_yaml::to_string(&field).unwrap_or_default(),
                   "diagnostics": diags.iter().map(|(m, r, l)| json!([m, r.0, r.1, l])).collect::<Vec<_>>(),
                   "unparsed": unparsed, "nargs": arg_ranges.len(),
                   "nontrivial": true}),
        );
        i += 1;
    }
    cases
}
