//! C04: closed-form lints. (1) programs with the documented patterns in every literal spelling, embedded
//! in enclosing contexts, dumped as syntax trees with the real lints' diagnostics counted per code;
//! (2) calls of script-defined functions for mismatched_arg_count; (3) positive / negative template
//! families for the lints that are not modelled.
use crate::astdump;
use crate::cases::Cases;
use crate::gal::*;
use crate::genlua::gen_program;
use crate::rng::Rng;
use full_moon::ast::{Call, Stmt, Suffix};
use selene_lib::{standard_library::StandardLibrary, Checker, CheckerConfig};
use serde_json::json;
use std::collections::BTreeMap;
use std::panic::{catch_unwind, AssertUnwindSafe};

const ZEROS: [&str; 8] = ["0", "0", "0", "0.0", "0x0", "00", "0e0", ".0"];
const ENDS: [&str; 30] = ["1", "1", "1", "1.0", "0x1", "0x10", "2", "1e0", "0.5", "1e1", "10", "01", ".5", "1e-1", "1E0", "0", "0xF", "1.5",
    "-1", "-0.5", "-inf", "-nan", "inf", "nan", "-infinity", "-x", "(1)", "1 + 0", "-NaN", "- 1"];
const OPERANDS: [&str; 8] = ["x", "1", "-1", "(x)", "f()", "t.n", "#t", "2 ^ 3"];

fn wrap(r: &mut Rng, body: &str) -> String {
    match r.below(11) {
        9 => format!("q0 = 1\n{body}\n"),
        10 => format!("local q1 = 2\nq1 = q1 + 1\n{body}\nprint(q1)\n"),
        0 | 1 => body.to_string(),
        2 => format!("do\n{body}\nend\n"),
        3 => format!("local function g()\n{body}\nend\nprint(g)\n"),
        4 => format!("if cond then\nprint(1)\nelse\n{body}\nend\n"),
        5 => format!("for _ = 1, 2 do\n{body}\nend\n"),
        6 => format!("local tbl = {{ f = function()\n{body}\nend }}\nprint(tbl)\n"),
        7 => format!("return (function()\n{body}\nend)()\n"),
        _ => format!("while cond do\nrepeat\n{body}\nuntil cond\nend\n"),
    }
}

fn pattern(r: &mut Rng) -> String {
    match r.below(18) {
        12 => (*r.pick(&["local n1 = { name = \"outer\", { \"first\", \"second\", size = 2 } }\nprint(n1)", "print({ 1, k = { 2, j = 3 } }, { { 1, a = 2 }, { b = 1, 2 } })",
                         "local n2 = { a = { 1, b = 2 }, { c = 3, 4 }, 5 }", "local t1 = { 1, a = 2 }\nprint(t1)", "print({ a = 1, 2, 3 })", "f{ 1, [2] = 3 }", "local t2 = { 1, 2 }", "local t3 = { a = 1, [\"b\"] = 2 }", "print({})"])).to_string(),
        13 => (*r.pick(&["local d1 = { a = 1, a = 2 }", "local d2 = { [\"k\"] = 1, k = 2 }", "local d3 = { 1, [1] = 2 }", "local d4 = { [1] = 1, [1.0] = 2 }",
                         "local d5 = { a = 1, b = 2, [\"a b\"] = 3 }", "local d6 = { 1, 2, [3] = 3, 4 }", "local d7 = { [\"1\"] = 1, 2 }", "f{ x = 1, x = 2, x = 3 }",
                         "local d8 = { [ [[k]] ] = 1, k = 2 }", "local d9 = { [x] = 1, [x] = 2 }",
                         "local e1 = { [261723845] = 1, [261723846] = 2 }", "local e2 = { [16777216] = 1, [16777217] = 2 }", "local e3 = { [0.1] = 1, [0.100000001] = 2 }",
                         "local e4 = { [1700000001] = \"a\", [1700000002] = \"b\", [1e10] = 1, [10000000001] = 2 }", "local e5 = { [0x10] = 1, [16] = 2, [0xff] = 3, [255.5] = 4 }",
                         "local p1 = { k = 1, [\"k \"] = 2 }", "local p2 = { [\" k\"] = 1, k = 2, [\"k\\n\"] = 3 }", "local p3 = { [\"a b\"] = 1, [\"a b \"] = 2, [ [[\nk]] ] = 3, k = 4 }", "local p4 = { [\"K\"] = 1, k = 2, [\"\"] = 3, [\" \"] = 4 }"])).to_string(),
        14 => (*r.pick(&["if (x) then print(1) end", "while (x) do print(1) end", "repeat print(1) until (x)", "if x then print(1) elseif (y) then print(2) end",
                         "if (x) or (y) then print(1) end", "if (x)(y) then print(1) end", "while ((x)) do print(1) end",
                         "if (f()) then print(1) end", "while (t:m()) do print(1) end", "repeat print(1) until (...)", "if (not f()) then print(1) elseif (f()) then print(2) end"])).to_string(),
        15 => format!("print({} {} {})", r.pick(&["x", "{}", "{ 1 }", "(x)", "({})"]), r.pick(&["==", "~=", "<", "<=", ">", ">=", "+", ".."]), r.pick(&["{}", "y", "{ a = 1 }", "({})", "#t"])),
        16 => (*r.pick(&["print(type(x == \"number\"))", "print(type(x) == \"number\")", "if type(x == 'string') then print(1) end", "print(type(x ~= \"number\"))",
                         "print(type(x == y))", "print(typeof(x == \"number\"))", "print(type (x == \"a\"))", "assert(\n    type(x == \"number\"), 1)", "local ok =\n  type(x == \"s\")\nprint(ok)", "print(type --[[c]] (x == \"b\"))", "print(type(x == \"a\", 2))", "print(type((x == \"a\")))", "print(t.type(x == \"a\"))", "print(type \"a\")"])).to_string(),
        17 => (*r.pick(&["local m1 = { f(), a = 1 }", "local m2 = { a = 1; 2 }", "local m3 = { [1] = 1, 2 }"])).to_string(),
        0 | 1 => format!("print({} / {})", r.pick(&OPERANDS), r.pick(&ZEROS)),
        2 => format!("print({} / {})", r.pick(&ZEROS), r.pick(&ZEROS)),
        3 => format!("local nanq = {} {} {} / {}\nprint(nanq)", r.pick(&["x", "x", "t[i]", "t[1]", "t.k", "t[\"k\"]", "(x)", "f()", "t.a.b"]), r.pick(&["==", "~=", "<"]), r.pick(&ZEROS), r.pick(&ZEROS)),
        4 | 5 => format!("for i = #t, {}{} do print(i) end", r.pick(&ENDS), r.pick(&["", "", "", ", -1", ", 1"])),
        6 => format!("for i = {}, {} do print(i) end", r.pick(&["1", "#t + 1", "n", "(#t)"]), r.pick(&ENDS)),
        7 => (*r.pick(&["if x then end", "if x then print(1) elseif y then else end", "if x then\n-- c\nend", "if x then print(1) else end", "if x then print(1) end"])).to_string(),
        8 => (*r.pick(&["while x do end", "for i = 1, 2 do end", "for k in pairs(t) do end", "repeat until x", "while x do print(1) end", "while x do\n--c\nend"])).to_string(),
        9 | 10 => (*r.pick(&["a, b, c = 1", "a = 1, 2", "a, b = f()", "a, b, c = f(), 2", "a, b = nil", "a, b = ...", "local p, q = 1", "local p = 1, 2", "local p, q = (f())", "a, b = 1, 2", "local p, q", "a, b, c = x, (nil)",
                         "a = 1, f()", "a, b = 1, 2, nil", "local c1 = 1, (f())", "a = 1, ...", "a, b = 1, 2, (nil)", "local c2, c3 = 1, 2, f()", "a = f(), 2"])).to_string(),
        _ => format!("print({} / {} / {})", r.pick(&OPERANDS), r.pick(&ZEROS), r.pick(&ZEROS)),
    }
}

fn lint_counts(src: &str, ast: &full_moon::ast::Ast) -> Option<BTreeMap<String, usize>> {
    let _ = src;
    catch_unwind(AssertUnwindSafe(|| {
        let checker: Checker<toml::value::Value> =
            Checker::new(CheckerConfig::default(), StandardLibrary::from_name("lua51").unwrap()).unwrap();
        let mut m = BTreeMap::new();
        for d in checker.test_on(ast) {
            *m.entry(d.diagnostic.code.to_string()).or_insert(0) += 1;
        }
        m
    }))
    .ok()
}

const PARAMS: [&str; 7] = ["", "a", "a, b", "a, b, c", "...", "a, ...", "a, b, ..."];
const ARGS: [&str; 8] = ["1", "x", "g()", "...", "(g())", "{}", "\"s\"", "nil"];

/// (lint, positive?, snippet)
const TEMPLATES: [(&str, bool, &str); 44] = [
    ("duplicate_keys", true, "local t = { a = 1, a = 2 }\nprint(t)"),
    ("duplicate_keys", true, "local t = { [\"k\"] = 1, k = 2 }\nprint(t)"),
    ("duplicate_keys", false, "local t = { a = 1, b = 2 }\nprint(t)"),
    ("duplicate_keys", false, "local t = { a = 1 }\nlocal u = { a = 2 }\nprint(t, u)"),
    ("mixed_table", true, "local t = { 1, a = 2 }\nprint(t)"),
    ("mixed_table", true, "local t = { a = 2, \"x\" }\nprint(t)"),
    ("mixed_table", false, "local t = { 1, 2 }\nprint(t)"),
    ("mixed_table", false, "local t = { a = 1, b = 2 }\nprint(t)"),
    ("if_same_then_else", true, "if x then print(1) else print(1) end"),
    ("if_same_then_else", true, "if x then\n  print(1)\nelseif y then\n  print(1)\nend"),
    ("if_same_then_else", false, "if x then print(1) else print(2) end"),
    ("if_same_then_else", false, "if x then print(1) end"),
    ("ifs_same_cond", true, "if x then print(1) elseif x then print(2) end"),
    ("ifs_same_cond", true, "if x.y == 1 then print(1) elseif x.y == 1 then print(2) end"),
    ("ifs_same_cond", false, "if x then print(1) elseif y then print(2) end"),
    ("ifs_same_cond", false, "if f() then print(1) elseif f() then print(2) end"),
    ("parenthese_conditions", true, "if (x) then print(1) end"),
    ("parenthese_conditions", true, "while (x) do print(1) end"),
    ("parenthese_conditions", true, "repeat print(1) until (x)"),
    ("parenthese_conditions", false, "if x then print(1) end"),
    ("parenthese_conditions", false, "if (x) or (y) then print(1) end"),
    ("almost_swapped", true, "a = b\nb = a"),
    ("almost_swapped", true, "t.x = t.y\nt.y = t.x"),
    ("almost_swapped", false, "a = b\nb = c"),
    ("almost_swapped", false, "a = b\nprint(1)\nb = a"),
    ("constant_table_comparison", true, "print(x == {})"),
    ("constant_table_comparison", true, "print({ 1 } ~= y)"),
    ("constant_table_comparison", false, "print(x == y)"),
    ("constant_table_comparison", false, "print(#x == 0)"),
    ("type_check_inside_call", true, "print(type(x == \"number\"))"),
    ("type_check_inside_call", true, "if type(x == \"string\") then print(1) end"),
    ("type_check_inside_call", false, "print(type(x) == \"number\")"),
    ("type_check_inside_call", false, "print(type(x))"),
    ("bad_string_escape", true, "print(\"\\q\")"),
    ("bad_string_escape", true, "print('\\\"')"),
    ("bad_string_escape", true, "print(\"\\300\")"),
    ("bad_string_escape", false, "print(\"\\n\\t\\\\\")"),
    ("bad_string_escape", false, "print(\"\\\"\", '\\'')"),
    ("bad_string_escape", false, "print([[\\q]])"),
    ("multiple_statements", true, "print(1) print(2)"),
    ("multiple_statements", true, "local a = 1; local b = 2\nprint(a, b)"),
    ("multiple_statements", false, "print(1)\nprint(2)"),
    ("multiple_statements", false, "if x then return end"),
    ("multiple_statements", false, "local f = function()\n  return 1\nend\nprint(f)"),
];

pub fn generate(seed: u64, n: usize, _thorough: bool) -> Cases {
    let mut cases = Cases::new("C04");
    let mut rng = Rng::new(seed);
    let mut i = 0;
    let mut attempts = 0;
    while i < n && attempts < 20 * n {
        attempts += 1;
        let mut r = rng.fork(attempts as u64);
        match r.below(15) {
            14 => {
                // (7) empty_if / empty_loop with comments_count: the generator knows which arms are empty and which hold a comment
                const ARMS: [&str; 6] = ["", "-- c\n", "--[[ c ]]\n", "print(1)\n", "print(1) -- c\n", "-- c\nprint(1)\n"];
                let cc = r.chance(1, 2);
                let is_loop = r.chance(1, 3);
                let k = if is_loop { 1 } else { r.range(1, 4) };
                let arms: Vec<usize> = (0..k).map(|_| r.below(ARMS.len())).collect();
                let mut src = String::new();
                if is_loop {
                    src.push_str(*r.pick(&["while x do\n", "for i = 1, 2 do\n", "for k in pairs(t) do\n", "repeat\n"]));
                    src.push_str(ARMS[arms[0]]);
                    src.push_str(if src.starts_with("repeat") { "until x\n" } else { "end\n" });
                } else {
                    let has_else = k > 1 && r.chance(1, 2);
                    for (j, a) in arms.iter().enumerate() {
                        if j == 0 {
                            src.push_str("if x then\n");
                        } else if has_else && j == k - 1 {
                            src.push_str("else\n");
                        } else {
                            src.push_str(&format!("elseif y{j} then\n"));
                        }
                        src.push_str(ARMS[*a]);
                    }
                    src.push_str("end\n");
                }
                let ast = match full_moon::parse_fallible(&src, full_moon::LuaVersion::lua51()).into_result() {
                    Ok(a) => a,
                    Err(_) => continue,
                };
                let code = if is_loop { "empty_loop" } else { "empty_if" };
                let config = format!("[config]\n{code} = {{ comments_count = {cc} }}\n");
                let count = catch_unwind(AssertUnwindSafe(|| {
                    let cfg: CheckerConfig<toml::value::Value> = toml::from_str(&config).unwrap();
                    let checker: Checker<toml::value::Value> = Checker::new(cfg, StandardLibrary::from_name("lua51").unwrap()).unwrap();
                    checker.test_on(&ast).into_iter().filter(|d| d.diagnostic.code == code).count()
                }));
                let count = match count {
                    Ok(c) => c,
                    Err(_) => continue,
                };
                cases.push(
                    format!("CArms {} {} {}%nat", gbool(cc), glist(arms.iter(), |a| format!("{}%N", a)), count),
                    json!({"kind": "comments_count", "lint": code, "source": src, "comments_count": cc, "count": count, "nontrivial": true}),
                );
            }
            10..=12 => {
                // (5) the "same text" lints on whole programs
                if !crate::c04same::same_case(&mut r, &mut cases) {
                    continue;
                }
            }
            13 => {
                // (6) multiple_statements over line layouts
                if !crate::c04same::lines_case(&mut r, &mut cases) {
                    continue;
                }
            }
            0..=4 => {
                // (1) modelled lints on whole programs
                let mut src = String::new();
                if r.chance(1, 3) {
                    src.push_str(&gen_program(&mut r).0);
                    src.push('\n');
                }
                for _ in 0..r.range(1, 4) {
                    let p = pattern(&mut r);
                    src.push_str(&wrap(&mut r, &p));
                    src.push('\n');
                }
                // a trailing `return` wrapper must stay last
                let ast = match full_moon::parse_fallible(&src, full_moon::LuaVersion::lua51()).into_result() {
                    Ok(a) => a,
                    Err(_) => continue,
                };
                let term = match astdump::chunk(&ast) {
                    Some(t) => t,
                    None => continue,
                };
                let counts = match lint_counts(&src, &ast) {
                    Some(c) => c,
                    None => continue,
                };
                let g = |k: &str| counts.get(k).copied().unwrap_or(0);
                cases.push(
                    format!(
                        "CChunk {} {}%nat {}%nat {}%nat {}%nat {}%nat {}%nat {}%nat {}%nat {}%nat {}%nat {}%nat",
                        term,
                        g("divide_by_zero"),
                        g("compare_nan"),
                        g("suspicious_reverse_loop"),
                        g("empty_if"),
                        g("empty_loop"),
                        g("unbalanced_assignments"),
                        g("mixed_table"),
                        g("duplicate_keys"),
                        g("parenthese_conditions"),
                        g("constant_table_comparison"),
                        g("type_check_inside_call")
                    ),
                    json!({"kind": "modelled-lints", "source": src, "counts": counts, "nontrivial": true}),
                );
            }
            5 | 6 => {
                // (2) mismatched_arg_count
                let params = *r.pick(&PARAMS);
                let k = r.below(5);
                let args: Vec<&str> = (0..k).map(|_| *r.pick(&ARGS)).collect();
                let sugar = r.below(10);
                let call = match sugar {
                    0 => "f\"s\"".to_string(),
                    1 => "f{ 1 }".to_string(),
                    _ => format!("f({})", args.join(", ")),
                };
                let src = format!("local function f({params}) end\nlocal function w(...)\n  {call}\nend\nprint(w)\n");
                let ast = match full_moon::parse_fallible(&src, full_moon::LuaVersion::lua51()).into_result() {
                    Ok(a) => a,
                    Err(_) => continue,
                };
                // the call is the only statement of w's body
                let mut args_term = None;
                if let Some(Stmt::LocalFunction(wf)) = ast.nodes().stmts().nth(1) {
                    if let Some(Stmt::FunctionCall(c)) = wf.body().block().stmts().next() {
                        if let Some(Suffix::Call(Call::AnonymousCall(a))) = c.suffixes().next() {
                            args_term = astdump::args(a);
                        }
                    }
                }
                let args_term = match args_term {
                    Some(t) => t,
                    None => continue,
                };
                let counts = match lint_counts(&src, &ast) {
                    Some(c) => c,
                    None => continue,
                };
                let reported = counts.get("mismatched_arg_count").copied().unwrap_or(0) > 0;
                let ps: Vec<String> = params
                    .split(',')
                    .map(|s| s.trim())
                    .filter(|s| !s.is_empty())
                    .map(|s| {
                        let t = format!("{{| t_name := {}; t_lo := 0%N; t_hi := 0%N |}}", gstr(s));
                        if s == "..." { format!("PrmEllipsis {t}") } else { format!("PrmName {t}") }
                    })
                    .collect();
                cases.push(
                    format!("CArgs {} {} {}", glist(ps.iter(), |p| p.clone()), args_term, gbool(reported)),
                    json!({"kind": "mismatched_arg_count", "source": src, "reported": reported, "nontrivial": true}),
                );
            }
            7 => {
                // (4) bad_string_escape: the scan of a quoted literal
                const PIECES: [&str; 30] = ["\\a", "\\n", "\\z", "\\x", "\\x4", "\\x41", "\\xZ", "\\u", "\\u{", "\\u{41}", "\\u{110000}", "\\u{00000041}",
                    "\\u{1234", "\\0", "\\12", "\\255", "\\256", "\\300", "\\9ff", "\\m", "\\\u{e9}", "\\\u{0663}", "\\\\", "}", "ab", "\u{e9}", "7f", "\u{0663}", "\\q}", " "];
                let double = r.chance(1, 2);
                let roblox = r.chance(1, 2);
                let mut lit = String::new();
                for _ in 0..r.range(1, 6) {
                    lit.push_str(*r.pick(&PIECES));
                }
                if r.chance(1, 3) {
                    lit.push_str(if double { "\\'" } else { "\\\"" });
                }
                if r.chance(1, 4) {
                    lit.push_str(if double { "\\\"" } else { "\\'" });
                }
                let q = if double { '"' } else { '\'' };
                let src = format!("local s = {q}{lit}{q}\nprint(s)\n");
                let version = if roblox { full_moon::LuaVersion::luau() } else { full_moon::LuaVersion::lua51() };
                let ast = match full_moon::parse_fallible(&src, version).into_result() {
                    Ok(a) => a,
                    Err(_) => continue,
                };
                let lib = if roblox { StandardLibrary::roblox_base() } else { StandardLibrary::from_name("lua51").unwrap() };
                let ds = catch_unwind(AssertUnwindSafe(|| {
                    let checker: Checker<toml::value::Value> = Checker::new(CheckerConfig::default(), lib).unwrap();
                    checker
                        .test_on(&ast)
                        .into_iter()
                        .filter(|d| d.diagnostic.code == "bad_string_escape")
                        .map(|d| d.diagnostic.primary_label.range)
                        .collect::<Vec<_>>()
                }));
                let ds = match ds {
                    Ok(d) => d,
                    Err(_) => {
                        cases.push("CEscapePanic".to_string(), json!({"kind": "bad_string_escape-panic", "source": src, "nontrivial": true}));
                        i += 1;
                        continue;
                    }
                };
                let base = "local s = ".len() as u32 + 1;
                let mut rel: Vec<(u32, u32)> = ds.iter().map(|(a, b)| (a.wrapping_sub(base), b.wrapping_sub(base))).collect();
                rel.sort();
                cases.push(
                    format!(
                        "CEscape {} {} [{}]%N {}",
                        if double { "QDouble" } else { "QSingle" },
                        gbool(roblox),
                        lit.bytes().map(|b| b.to_string()).collect::<Vec<_>>().join(";"),
                        glist(rel.iter(), |(a, b)| format!("({}%nat, {}%nat)", a, b))
                    ),
                    json!({"kind": "bad_string_escape", "source": src, "roblox": roblox, "ranges": rel, "nontrivial": true}),
                );
            }
            _ => {
                // (3) template verdicts
                let (lint, positive, snippet) = *r.pick(&TEMPLATES);
                let src = wrap(&mut r, snippet);
                let ast = match full_moon::parse_fallible(&src, full_moon::LuaVersion::lua51()).into_result() {
                    Ok(a) => a,
                    Err(_) => continue,
                };
                let counts = match lint_counts(&src, &ast) {
                    Some(c) => c,
                    None => continue,
                };
                let c = counts.get(lint).copied().unwrap_or(0);
                cases.push(
                    format!("CVerdict {} {} {}%nat", gstr(lint), gbool(positive), c),
                    json!({"kind": format!("template:{lint}"), "source": src, "expected": positive, "count": c, "nontrivial": true}),
                );
            }
        }
        i += 1;
    }
    cases
}
