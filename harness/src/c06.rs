//! C06: find_global / global_has_fields on generated libraries; read/write diagnostics of
//! incorrect_standard_library_use on generated programs.
use crate::cases::Cases;
use crate::gal::*;
use crate::genlib::*;
use crate::rng::Rng;
use selene_lib::{standard_library::*, Checker, CheckerConfig};
use serde_json::json;
use std::panic::{catch_unwind, AssertUnwindSafe};

const NAMES: [&str; 4] = ["a", "b", "c", "d"];

fn gen_path(r: &mut Rng, lo: usize, hi: usize) -> Vec<String> {
    (0..r.range(lo, hi)).map(|_| (*r.pick(&NAMES)).to_string()).collect()
}

/// a key of the library (wildcards replaced by a name), one of its prefixes, or one segment more
fn key_path(r: &mut Rng, l: &StandardLibrary) -> Vec<String> {
    if l.globals.is_empty() {
        return gen_path(r, 1, 4);
    }
    let k = l.globals.keys().nth(r.below(l.globals.len())).unwrap().clone();
    let mut segs: Vec<String> = k.split('.').map(|s| if s == "*" { (*r.pick(&NAMES)).to_string() } else { s.to_string() }).collect();
    match r.below(4) {
        0 | 1 => {}
        2 => segs.truncate(r.range(1, segs.len())),
        _ => segs.push((*r.pick(&NAMES)).to_string()),
    }
    segs
}

fn structs_closed(l: &StandardLibrary) -> bool {
    let ok = |m: &std::collections::BTreeMap<String, Field>| {
        m.values().all(|f| match &f.field_kind {
            FieldKind::Struct(s) => l.structs.contains_key(s),
            _ => true,
        })
    };
    ok(&l.globals) && l.structs.values().all(ok)
}

fn lint(l: &StandardLibrary, src: &str) -> Option<Vec<(u32, String)>> {
    catch_unwind(AssertUnwindSafe(|| {
        let checker: Checker<toml::value::Value> = Checker::new(CheckerConfig::default(), l.clone()).unwrap();
        let ast = full_moon::parse_fallible(src, full_moon::LuaVersion::lua51()).into_result().ok()?;
        Some(
            checker
                .test_on(&ast)
                .into_iter()
                .filter(|d| d.diagnostic.code == "incorrect_standard_library_use")
                .map(|d| (d.diagnostic.primary_label.range.0, d.diagnostic.message.clone()))
                .collect(),
        )
    }))
    .ok()
    .flatten()
}

fn verdict_of(msg: &str) -> &'static str {
    if msg.contains("does not contain the field") {
        "VNoField"
    } else if msg.contains("is not writable") || msg.contains("is not overridable") {
        "VNotWritable"
    } else {
        "VOther"
    }
}

pub fn generate(seed: u64, n: usize, thorough: bool) -> Cases {
    let mut cases = Cases::new("C06");
    let mut rng = Rng::new(seed);
    for i in 0..n {
        let mut r = rng.fork(i as u64);
        let simple = r.chance(1, 4);
        let o = LibOpts {
            max_keys: if r.chance(1, 3) { 7 } else { 3 },
            max_depth: if thorough { 4 } else { 3 },
            removed: false,
            structs: !simple,
            versions: false,
            rich_fields: false,
        };
        let mut l = gen_lib(&mut r, &o);
        if simple {
            l.globals = l
                .globals
                .into_iter()
                .filter(|(k, f)| !k.contains('*') && !matches!(f.field_kind, FieldKind::Any | FieldKind::Struct(_)))
                .collect();
        }
        let closed = structs_closed(&l);
        match r.below(10) {
            0..=4 => {
                // several queries against one library
                for _ in 0..4 {
                    let names = if r.chance(1, 3) && !l.globals.is_empty() {
                        // guided: follow keys through struct references, then maybe one more segment
                        let mut segs: Vec<String> = Vec::new();
                        let mut cur = &l.globals;
                        for _hop in 0..4 {
                            if cur.is_empty() {
                                break;
                            }
                            let (k, f) = cur.iter().nth(r.below(cur.len())).unwrap();
                            for s in k.split('.') {
                                segs.push(if s == "*" { (*r.pick(&NAMES)).to_string() } else { s.to_string() });
                            }
                            match &f.field_kind {
                                FieldKind::Struct(sn) if l.structs.contains_key(sn) && r.chance(4, 5) => {
                                    cur = &l.structs[sn];
                                }
                                _ => break,
                            }
                        }
                        if r.chance(1, 2) {
                            segs.push((*r.pick(&NAMES)).to_string());
                        }
                        if segs.is_empty() {
                            segs.push("a".to_string());
                        }
                        segs
                    } else if r.chance(1, 3) && !l.globals.is_empty() {
                        // a key, a prefix or an extension of a key (wildcards replaced by a name)
                        let k = l.globals.keys().nth(r.below(l.globals.len())).unwrap().clone();
                        let mut segs: Vec<String> = k.split('.').map(|s| if s == "*" { (*r.pick(&NAMES)).to_string() } else { s.to_string() }).collect();
                        match r.below(3) {
                            0 => {}
                            1 => {
                                segs.truncate(r.range(1, segs.len()));
                            }
                            _ => segs.push((*r.pick(&NAMES)).to_string()),
                        }
                        segs
                    } else {
                        gen_path(&mut r, 1, 5)
                    };
                    let res = catch_unwind(AssertUnwindSafe(|| l.find_global(&names).cloned()));
                    let hf = catch_unwind(AssertUnwindSafe(|| l.global_has_fields(&names[0]))).unwrap_or(false);
                    let (term, desc) = match &res {
                        Ok(Some(f)) => (format!("(IFound {})", gfield(f)), format!("{:?}", f.field_kind)),
                        Ok(None) => ("INotFound".to_string(), "none".to_string()),
                        Err(_) => ("IPanic".to_string(), "panic".to_string()),
                    };
                    cases.push(
                        format!("CFind {} {} {} {}", glib(&l), glist(names.iter(), |s| gstr(s)), term, gbool(hf)),
                        json!({"kind": "find_global", "lib": serde_yaml::to_string(&l).unwrap_or_default(), "names": names,
                               "result": desc, "has_fields": hf, "closed": closed,
                               "nontrivial": l.globals.len() > 1}),
                    );
                }
            }
            5..=7 => {
                if !closed {
                    continue;
                }
                let np = if r.chance(1, 2) { key_path(&mut r, &l) } else { gen_path(&mut r, 1, 4) };
                // the same path read plainly, with the rest of an expression hanging off it, through bracket strings, or as the
                // receiver path of a method call (the last segment is then the method's name)
                let form = r.below(6);
                let np = if form == 3 && !l.globals.is_empty() && r.chance(1, 2) {
                    // a method called on an explicit entry: the entry's own key, then a name it does not define
                    let k = l.globals.keys().nth(r.below(l.globals.len())).unwrap().clone();
                    let mut segs: Vec<String> = k.split('.').map(|s| if s == "*" { (*r.pick(&NAMES)).to_string() } else { s.to_string() }).collect();
                    segs.push((*r.pick(&["fetch", "a", "zz"])).to_string());
                    segs
                } else {
                    np
                };
                let src = match form {
                    0 if np.len() >= 2 => format!("local _ = {}(1).tail\n", np.join(".")),
                    1 if np.len() >= 2 => format!("local _ = {}(1):tail().more\n", np.join(".")),
                    3 if np.len() >= 2 => format!("local _ = {}:{}()\n", np[..np.len() - 1].join("."), np[np.len() - 1]),
                    _ => format!("local _ = {}\n", np.join(".")),
                };
                if let Some(ds) = lint(&l, &src) {
                    let v = ds.iter().find(|(s, _)| *s == 10).map(|(_, m)| verdict_of(m)).unwrap_or("VOk");
                    if v == "VOther" {
                        // a complaint about the call itself (arguments, `.` against `:`): C05's subject, not a lookup verdict
                        continue;
                    }
                    cases.push(
                        format!("CRead {} {} {}", glib(&l), glist(np.iter(), |s| gstr(s)), v),
                        json!({"kind": "read", "form": form, "lib": serde_yaml::to_string(&l).unwrap_or_default(), "source": src, "verdict": v}),
                    );
                }
            }
            _ => {
                if !closed {
                    continue;
                }
                let k = r.range(1, 4);
                let mut src = String::from("local loc = {}\n");
                let mut targets = Vec::new();
                let mut offsets = Vec::new();
                let mut lhs = String::new();
                for j in 0..k {
                    if j > 0 {
                        lhs.push_str(", ");
                    }
                    offsets.push(src.len() + lhs.len());
                    match r.below(8) {
                        0 => {
                            lhs.push_str("loc");
                            targets.push("TLocal".to_string());
                        }
                        1 => {
                            lhs.push_str("loc.x");
                            targets.push("TLocal".to_string());
                        }
                        2 => {
                            lhs.push_str("f().x");
                            targets.push("TOther".to_string());
                        }
                        _ => {
                            // half of the paths are the library's own keys: an entry of every writability is assigned directly at every depth
                            let np = if r.chance(1, 2) { key_path(&mut r, &l) } else { gen_path(&mut r, 1, 4) };
                            lhs.push_str(&np.join("."));
                            targets.push(format!("(TPath {})", glist(np.iter(), |s| gstr(s))));
                        }
                    }
                }
                let rhs: Vec<String> = (0..k).map(|x| x.to_string()).collect();
                src.push_str(&format!("{} = {}\n", lhs, rhs.join(", ")));
                // a target whose leading identifier resolved to a script variable (a local, or a global
                // the statement itself assigns: try_hoist) is not the library's: ask the real scope analysis
                if let Ok(ast) = full_moon::parse_fallible(&src, full_moon::LuaVersion::lua51()).into_result() {
                    let ctx = selene_lib::lints::AstContext::from_ast(&ast);
                    for (j, o) in offsets.iter().enumerate() {
                        if let Some(rf) = ctx.scope_manager.reference_at_byte(*o) {
                            if rf.resolved.is_some() && targets[j] != "TOther" {
                                targets[j] = "TLocal".to_string();
                            }
                        }
                    }
                }
                if let Some(ds) = lint(&l, &src) {
                    let vs: Vec<&str> = offsets
                        .iter()
                        .map(|o| ds.iter().find(|(s, _)| *s as usize == *o).map(|(_, m)| verdict_of(m)).unwrap_or("VOk"))
                        .collect();
                    cases.push(
                        format!("CWrite {} {} {}", glib(&l), glist(targets.iter(), |s| s.clone()), glist(vs.iter(), |s| s.to_string())),
                        json!({"kind": "write", "lib": serde_yaml::to_string(&l).unwrap_or_default(), "source": src,
                               "targets": targets, "verdicts": vs, "nontrivial": k > 1}),
                    );
                }
            }
        }
    }
    cases
}
