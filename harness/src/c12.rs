//! C12: histories and thread schedules of real Checker::test_on calls through one shared checker;
//! every observed diagnostics list (content and order) is fingerprinted and compared, in Coq, with what
//! a fresh checker returns for the same file.
use crate::cases::Cases;
use crate::genlua::gen_program;
use crate::lint::{diag_json, load_std};
use crate::meta::fixtures;
use crate::rng::Rng;
use selene_lib::{Checker, CheckerConfig};
use serde_json::json;
use std::panic::{catch_unwind, AssertUnwindSafe};
use std::sync::{Arc, Barrier};

/// programs whose diagnostics carry "was found in ..." notes, struct lookups, deprecations...
const SPECIAL: [&str; 13] = [
    "os.exit()\nprint(package.searchpath)\n",
    "print(bit32.band(1, 2), table.pack(1), utf8.char(65))\n",
    "print(table.unpack({}), math.tointeger(1), string.pack)\n",
    "print(io.write, os.rename, debug.traceback, require)\n",
    "local t = { a = 1, a = 2, b = 3, b = 4, 5 }\nprint(t)\n",
    "local function f(a, b) end\nf(1, 2, 3)\nf(1, 2, 3, 4)\nlocal g = function() end\ng(1)\n",
    "print(1) print(2) print(3)\nif x then print(1) end if y then print(2) end\n",
    "local out = {}\nfor k, v in pairs(t) do out[k] = v end\nfor i, v in ipairs(t) do out[i] = v end\n",
    "x = 1\ny = 2\nprint(x, y, z, w)\nlocal a = 1\nlocal a = 2\n",
    "print(game, workspace, script, Instance.new(\"Part\"), task.wait())\n",
    "local table = { insert = print }\nlocal q = {}\ntable.insert(q, 1)\nlocal s = {}\nrawset(s, 1, 2)\n",
    "local log = {}\ntable.insert(log, 1)\nlocal s = {}\nrawset(s, 1, 2)\n",
    "local f\nf = function(a) end\nf = function(a, b) end\nf = function() end\nf(1, 2, 3)\n",
];

fn fnv(s: &str) -> u64 {
    let mut h: u64 = 0xcbf29ce484222325;
    for b in s.bytes() {
        h ^= b as u64;
        h = h.wrapping_mul(0x100000001b3);
    }
    h >> 1 // keep it comfortably inside what the printers handle
}

type Ck = Checker<toml::value::Value>;

fn fp(checker: &Ck, version: full_moon::LuaVersion, src: &str) -> u64 {
    let r = catch_unwind(AssertUnwindSafe(|| match full_moon::parse_fallible(src, version).into_result() {
        Ok(ast) => {
            let ds = checker.test_on(&ast);
            let v: Vec<_> = ds.iter().map(diag_json).collect();
            serde_json::to_string(&v).unwrap()
        }
        Err(e) => format!("parse errors: {}", e.len()),
    }));
    match r {
        Ok(s) => fnv(&s),
        Err(_) => 1,
    }
}

fn new_checker(std: &str, config: &str) -> Option<(Ck, full_moon::LuaVersion)> {
    let config: CheckerConfig<toml::value::Value> = toml::from_str(config).ok()?;
    let lib = load_std(std)?;
    let (version, _) = lib.lua_version();
    Some((Checker::new(config, lib).ok()?, version))
}

const STDS: [&str; 4] = ["lua51", "luau", "lua52", "roblox"];
const CONFIGS: [&str; 2] = ["", "[lints]\nshadowing = \"deny\"\nglobal_usage = \"warn\"\nmultiple_statements = \"deny\"\n"];

pub fn generate(seed: u64, n: usize, thorough: bool) -> Cases {
    let mut cases = Cases::new("C12");
    let mut rng = Rng::new(seed);
    let fx = fixtures();
    for i in 0..n {
        let mut r = rng.fork(i as u64);
        let std = *r.pick(&STDS);
        let config = *r.pick(&CONFIGS);
        // the files of this case
        let k = if thorough { r.range(4, 14) } else { r.range(3, 9) };
        let mut files: Vec<String> = Vec::new();
        for _ in 0..k {
            files.push(match r.below(10) {
                0..=2 => (*r.pick(&SPECIAL)).to_string(),
                3..=5 if !fx.is_empty() => r.pick(&fx).clone(),
                6 => crate::genlua::gen_unused_program(&mut r).0,
                _ => gen_program(&mut r).0,
            });
        }
        // fresh checker per file
        let mut fresh = vec![];
        let mut ok = true;
        for f in &files {
            match new_checker(std, config) {
                Some((c, v)) => fresh.push(fp(&c, v, f)),
                None => ok = false,
            }
        }
        if !ok {
            continue;
        }
        let (shared, version) = match new_checker(std, config) {
            Some(x) => x,
            None => continue,
        };
        let shared = Arc::new(shared);
        let mode = r.below(4);
        let mut ops: Vec<(usize, u64)> = vec![];
        let kind;
        match mode {
            0 => {
                kind = "repeat";
                for (j, f) in files.iter().enumerate() {
                    ops.push((j, fp(&shared, version, f)));
                    ops.push((j, fp(&shared, version, f)));
                }
            }
            1 => {
                kind = "shuffled-history";
                for _ in 0..(3 * k) {
                    let j = r.below(k);
                    ops.push((j, fp(&shared, version, &files[j])));
                }
            }
            _ => {
                kind = if mode == 2 { "threads" } else { "threads-cold-cache" };
                let nthreads = 8;
                let barrier = Arc::new(Barrier::new(nthreads));
                let files = Arc::new(files.clone());
                let mut handles = vec![];
                for t in 0..nthreads {
                    let mut tr = r.fork(1000 + t as u64);
                    let order: Vec<usize> = (0..(2 * k)).map(|_| tr.below(k)).collect();
                    let (shared, barrier, files) = (shared.clone(), barrier.clone(), files.clone());
                    handles.push(std::thread::spawn(move || {
                        // all threads hit the cold caches at the same moment
                        barrier.wait();
                        order.into_iter().map(|j| (j, fp(&shared, version, &files[j]))).collect::<Vec<_>>()
                    }));
                }
                for h in handles {
                    match h.join() {
                        Ok(v) => ops.extend(v),
                        Err(_) => ops.push((0, 1)),
                    }
                }
                if mode == 2 {
                    // warm: everything once more afterwards
                    for (j, f) in files.iter().enumerate() {
                        ops.push((j, fp(&shared, version, f)));
                    }
                }
            }
        }
        let nontrivial = fresh.iter().any(|h| *h != fnv("[]"));
        cases.push(
            format!(
                "{{| c_fresh := [{}]; c_ops := [{}] |}}",
                fresh.iter().enumerate().map(|(j, h)| format!("({}%N, {}%N)", j, h)).collect::<Vec<_>>().join("; "),
                ops.iter().map(|(j, h)| format!("({}%N, {}%N)", j, h)).collect::<Vec<_>>().join("; ")
            ),
            json!({"kind": kind, "std": std, "config": config, "files": files, "calls": ops.len(), "nontrivial": nontrivial}),
        );
    }
    cases
}
