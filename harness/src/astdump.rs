//! full_moon AST (Lua 5.1 fragment) -> Gallina term of Selene.Lua.Syntax. Returns None for any
//! construct outside the fragment.
use crate::gal::*;
use full_moon::ast::*;
use full_moon::node::Node;
use full_moon::tokenizer::{Symbol, TokenReference, TokenType};

pub fn gtok(t: &TokenReference) -> String {
    let (s, e) = (t.token().start_position().bytes(), t.token().end_position().bytes());
    format!("{{| t_name := {}; t_lo := {}%N; t_hi := {}%N |}}", gstr(&t.token().to_string()), s, e)
}

fn grange<N: Node>(n: N) -> Option<String> {
    n.range().map(|(s, e)| format!("({}%N, {}%N)", s.bytes(), e.bytes()))
}

fn raw(t: &TokenReference) -> String {
    gstr(&t.token().to_string())
}

pub fn expr(e: &Expression) -> Option<String> {
    Some(match e {
        Expression::BinaryOperator { lhs, binop, rhs } => {
            format!("(EBinop {} {} {})", gstr(binop.token().token().to_string().trim()), expr(lhs)?, expr(rhs)?)
        }
        Expression::Parentheses { expression, .. } => format!("(EParen {})", expr(expression)?),
        Expression::UnaryOperator { unop, expression } => {
            format!("(EUnop {} {})", gstr(unop.token().token().to_string().trim()), expr(expression)?)
        }
        Expression::Function(f) => format!("(EFunction {})", funcbody(&f.1)?),
        Expression::FunctionCall(c) => format!("(ECall {})", fcall(c)?),
        Expression::TableConstructor(t) => format!("(ETable {})", fields(t)?),
        Expression::Number(t) => format!("(ENumber {})", raw(t)),
        Expression::String(t) => format!("(EString {})", raw(t)),
        Expression::Symbol(t) => match t.token_type() {
            TokenType::Symbol { symbol: Symbol::Ellipsis } => format!("(EVararg {})", gtok(t)),
            TokenType::Symbol { symbol: Symbol::Nil } => "ENil".to_string(),
            TokenType::Symbol { symbol: Symbol::True } => "ETrue".to_string(),
            TokenType::Symbol { symbol: Symbol::False } => "EFalse".to_string(),
            _ => return None,
        },
        Expression::Var(v) => format!("(EVar {})", var(v)?),
        _ => return None,
    })
}

pub fn var(v: &Var) -> Option<String> {
    Some(match v {
        Var::Name(t) => format!("(VName {})", gtok(t)),
        Var::Expression(ve) => format!("(VExpr {} {} {})", prefix(ve.prefix())?, suffixes(ve.suffixes())?, grange(&**ve)?),
        _ => return None,
    })
}

pub fn prefix(p: &Prefix) -> Option<String> {
    Some(match p {
        Prefix::Name(t) => format!("(PName {})", gtok(t)),
        Prefix::Expression(e) => format!("(PExpr {})", expr(e)?),
        _ => return None,
    })
}

pub fn suffixes<'a>(ss: impl Iterator<Item = &'a Suffix>) -> Option<String> {
    let items: Option<Vec<String>> = ss.map(suffix).collect();
    let mut out = "SsNil".to_string();
    for s in items?.into_iter().rev() {
        out = format!("(SsCons {} {})", s, out);
    }
    Some(out)
}

pub fn suffix(s: &Suffix) -> Option<String> {
    Some(match s {
        Suffix::Call(c) => format!("(SfxCall {})", call(c)?),
        Suffix::Index(i) => format!("(SfxIndex {})", index(i)?),
        _ => return None,
    })
}

pub fn call(c: &Call) -> Option<String> {
    Some(match c {
        Call::AnonymousCall(a) => format!("(CAnon {})", args(a)?),
        Call::MethodCall(m) => format!("(CMethod {} {})", gtok(m.name()), args(m.args())?),
        _ => return None,
    })
}

pub fn args(a: &FunctionArgs) -> Option<String> {
    Some(match a {
        FunctionArgs::Parentheses { arguments, .. } => format!("(AParens {})", exprs(arguments.iter())?),
        FunctionArgs::String(t) => format!("(Syntax.AString {})", raw(t)),
        FunctionArgs::TableConstructor(t) => format!("(Syntax.ATable {})", fields(t)?),
        _ => return None,
    })
}

pub fn index(i: &Index) -> Option<String> {
    Some(match i {
        Index::Brackets { expression, .. } => format!("(IBrackets {})", expr(expression)?),
        Index::Dot { name, .. } => format!("(IDot {})", gtok(name)),
        _ => return None,
    })
}

pub fn fields(t: &TableConstructor) -> Option<String> {
    let items: Option<Vec<String>> = t
        .fields()
        .iter()
        .map(|f| {
            Some(match f {
                Field::ExpressionKey { key, value, .. } => format!("(FExprKey {} {})", expr(key)?, expr(value)?),
                Field::NameKey { key, value, .. } => format!("(FNameKey {} {})", gtok(key), expr(value)?),
                Field::NoKey(v) => format!("(FNoKey {})", expr(v)?),
                _ => return None,
            })
        })
        .collect();
    let mut out = "FsNil".to_string();
    for s in items?.into_iter().rev() {
        out = format!("(FsCons {} {})", s, out);
    }
    Some(out)
}

pub fn exprs<'a>(es: impl Iterator<Item = &'a Expression>) -> Option<String> {
    let items: Option<Vec<String>> = es.map(expr).collect();
    let mut out = "EsNil".to_string();
    for s in items?.into_iter().rev() {
        out = format!("(EsCons {} {})", s, out);
    }
    Some(out)
}

pub fn fcall(c: &FunctionCall) -> Option<String> {
    Some(format!("(FCall {} {} {})", prefix(c.prefix())?, suffixes(c.suffixes())?, grange(c)?))
}

pub fn funcbody(b: &FunctionBody) -> Option<String> {
    let ps: Option<Vec<String>> = b
        .parameters()
        .iter()
        .map(|p| {
            Some(match p {
                Parameter::Name(t) => format!("PrmName {}", gtok(t)),
                Parameter::Ellipsis(t) => format!("PrmEllipsis {}", gtok(t)),
                _ => return None,
            })
        })
        .collect();
    Some(format!("(FBody {} {})", glist(ps?.into_iter(), |s| s), block(b.block())?))
}

pub fn block(b: &Block) -> Option<String> {
    let items: Option<Vec<String>> = b.stmts().map(stmt).collect();
    let mut ss = "StNil".to_string();
    for s in items?.into_iter().rev() {
        ss = format!("(StCons {} {})", s, ss);
    }
    let last = match b.last_stmt() {
        None => "LNone".to_string(),
        Some(LastStmt::Break(_)) => "LBreak".to_string(),
        Some(LastStmt::Return(r)) => format!("(LReturn {})", exprs(r.returns().iter())?),
        _ => return None,
    };
    Some(format!("(Block {} {} {})", ss, last, gopt(grange(b), |s| s)))
}

pub fn stmt(s: &Stmt) -> Option<String> {
    Some(match s {
        Stmt::Assignment(a) => {
            let vs: Option<Vec<String>> = a.variables().iter().map(var).collect();
            let mut v = "VsNil".to_string();
            for x in vs?.into_iter().rev() {
                v = format!("(VsCons {} {})", x, v);
            }
            format!("(SAssign {} {})", v, exprs(a.expressions().iter())?)
        }
        Stmt::Do(d) => format!("(SDo {})", block(d.block())?),
        Stmt::FunctionCall(c) => format!("(SCallStmt {})", fcall(c)?),
        Stmt::FunctionDeclaration(f) => format!(
            "(SFunction {} {} {})",
            glist(f.name().names().iter(), gtok),
            gopt(f.name().method_name(), gtok),
            funcbody(f.body())?
        ),
        Stmt::GenericFor(g) => format!(
            "(SGenericFor {} {} {})",
            glist(g.names().iter(), gtok),
            exprs(g.expressions().iter())?,
            block(g.block())?
        ),
        Stmt::If(i) => {
            let mut ei = "EiNil".to_string();
            if let Some(elifs) = i.else_if() {
                let items: Option<Vec<(String, String)>> =
                    elifs.iter().map(|e| Some((expr(e.condition())?, block(e.block())?))).collect();
                for (c, b) in items?.into_iter().rev() {
                    ei = format!("(EiCons {} {} {})", c, b, ei);
                }
            }
            let els = match i.else_block() {
                Some(b) => format!("(OBSome {})", block(b)?),
                None => "OBNone".to_string(),
            };
            format!("(SIf {} {} {} {})", expr(i.condition())?, block(i.block())?, ei, els)
        }
        Stmt::LocalAssignment(l) => {
            // attributes / type annotations are not Lua 5.1
            format!("(SLocal {} {})", glist(l.names().iter(), gtok), exprs(l.expressions().iter())?)
        }
        Stmt::LocalFunction(f) => format!("(SLocalFunction {} {})", gtok(f.name()), funcbody(f.body())?),
        Stmt::NumericFor(n) => format!(
            "(SNumericFor {} {} {} {} {})",
            gtok(n.index_variable()),
            expr(n.start())?,
            expr(n.end())?,
            match n.step() {
                Some(e) => format!("(OESome {})", expr(e)?),
                None => "OENone".to_string(),
            },
            block(n.block())?
        ),
        Stmt::Repeat(r) => format!("(SRepeat {} {})", block(r.block())?, expr(r.until())?),
        Stmt::While(w) => format!("(SWhile {} {})", expr(w.condition())?, block(w.block())?),
        _ => return None,
    })
}

pub fn chunk(ast: &Ast) -> Option<String> {
    block(ast.nodes())
}
