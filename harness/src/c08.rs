//! C08/C09: the real get_filter_ranges / filter_diagnostics (through the selene_verif hooks)
//! on generated programs and arbitrary diagnostic lists.
use crate::cases::Cases;
use crate::gal::*;
use crate::genfilter::*;
use crate::rng::Rng;
use selene_lib::lints::{Diagnostic, Label, Severity};
use selene_lib::{verif, CheckerDiagnostic};
use serde_json::json;
use std::panic::{catch_unwind, AssertUnwindSafe};
use full_moon::node::Node;

pub fn grange(r: (usize, usize)) -> String {
    format!("({}%N, {}%N)", r.0, r.1)
}

pub fn gsev(s: Severity) -> &'static str {
    match s {
        Severity::Allow => "SAllow",
        Severity::Error => "SError",
        Severity::Warning => "SWarning",
    }
}

pub fn entries_term(ast: &full_moon::ast::Ast) -> (String, usize, usize) {
    let ranges = verif::filter_ranges(ast);
    let mut oks = 0;
    let mut errs = 0;
    let term = glist(ranges.iter(), |e| match e {
        Ok(f) => {
            oks += 1;
            format!(
                "FOk {{| fl_conf := {{| fc_global := {}; fc_lint := {}; fc_var := {} |}}; fl_comment := {}; fl_range := {} |}}",
                gbool(f.global),
                gstr(&f.lint),
                match f.variation { "allow" => "VAllow", "deny" => "VDeny", _ => "VWarn" },
                grange(f.comment_range),
                grange(f.range)
            )
        }
        Err((msg, range)) => {
            errs += 1;
            let lint = msg.trim_start_matches("no lint named `").trim_end_matches("` exists").to_string();
            format!("FErr {} {}", gstr(&lint), grange((range.0 as usize, range.1 as usize)))
        }
    });
    (term, oks, errs)
}

/// Where the pieces of code a filter comment can precede begin: the start of the first token of every
/// statement, expression, variable, prefix/suffix, call, argument list, field, parameter, function name and
/// body, table constructor and unary operator, and the end-of-file token (docs/src/usage/filtering.md:
/// "filter ... the next piece of code"). Independent of selene-lib/src/ast_util/visit_nodes.rs.
pub struct Pieces(pub std::collections::BTreeSet<usize>);

macro_rules! piece_visitor {
    ($($m:ident($t:ty),)+) => {
        impl full_moon::visitors::Visitor for Pieces {
            $(fn $m(&mut self, node: &$t) {
                if let Some(p) = node.start_position() {
                    self.0.insert(p.bytes());
                }
            })+
        }
    };
}

piece_visitor!(
    visit_anonymous_call(full_moon::ast::FunctionArgs),
    visit_assignment(full_moon::ast::Assignment),
    visit_call(full_moon::ast::Call),
    visit_do(full_moon::ast::Do),
    visit_else_if(full_moon::ast::ElseIf),
    visit_eof(full_moon::tokenizer::TokenReference),
    visit_expression(full_moon::ast::Expression),
    visit_field(full_moon::ast::Field),
    visit_function_args(full_moon::ast::FunctionArgs),
    visit_function_body(full_moon::ast::FunctionBody),
    visit_function_call(full_moon::ast::FunctionCall),
    visit_function_declaration(full_moon::ast::FunctionDeclaration),
    visit_function_name(full_moon::ast::FunctionName),
    visit_generic_for(full_moon::ast::GenericFor),
    visit_if(full_moon::ast::If),
    visit_index(full_moon::ast::Index),
    visit_local_assignment(full_moon::ast::LocalAssignment),
    visit_local_function(full_moon::ast::LocalFunction),
    visit_last_stmt(full_moon::ast::LastStmt),
    visit_method_call(full_moon::ast::MethodCall),
    visit_numeric_for(full_moon::ast::NumericFor),
    visit_parameter(full_moon::ast::Parameter),
    visit_prefix(full_moon::ast::Prefix),
    visit_return(full_moon::ast::Return),
    visit_repeat(full_moon::ast::Repeat),
    visit_stmt(full_moon::ast::Stmt),
    visit_suffix(full_moon::ast::Suffix),
    visit_table_constructor(full_moon::ast::TableConstructor),
    visit_un_op(full_moon::ast::UnOp),
    visit_var(full_moon::ast::Var),
    visit_var_expression(full_moon::ast::VarExpression),
    visit_while(full_moon::ast::While),
);

pub fn piece_starts(ast: &full_moon::ast::Ast) -> std::collections::BTreeSet<usize> {
    use full_moon::visitors::Visitor;
    let mut p = Pieces(Default::default());
    p.visit_ast(ast);
    p.0
}

const CODES: [&str; 5] = ["unused_variable", "undefined_variable", "shadowing", "empty_if", "divide_by_zero"];

pub fn out_term(ds: &[CheckerDiagnostic]) -> String {
    glist(ds.iter(), |d| {
        let dg = &d.diagnostic;
        if dg.code == "invalid_lint_filter" {
            let pr = grange((dg.primary_label.range.0 as usize, dg.primary_label.range.1 as usize));
            let sec = dg.secondary_labels.first().map(|l| grange((l.range.0 as usize, l.range.1 as usize)));
            if dg.message.starts_with("no lint named") {
                let lint = dg.message.trim_start_matches("no lint named `").trim_end_matches("` exists").to_string();
                format!("(OFail (NoSuchLint {} {}), {})", gstr(&lint), pr, gsev(d.severity))
            } else if dg.message.starts_with("global filters must") {
                format!("(OFail (GlobalAfterCode {} {}), {})", pr, sec.unwrap_or("(0%N,0%N)".into()), gsev(d.severity))
            } else {
                format!("(OFail (Conflict {} {}), {})", pr, sec.unwrap_or("(0%N,0%N)".into()), gsev(d.severity))
            }
        } else {
            format!(
                "(ODiag {{| d_code := {}; d_start := {}%N; d_payload := {}%N; d_sev := {} |}}, {})",
                gstr(dg.code),
                dg.primary_label.range.0,
                dg.message,
                gsev(d.severity),
                gsev(d.severity)
            )
        }
    })
}

pub fn gcps(s: &str) -> String {
    glist(s.chars(), |c| format!("{}%N", c as u32))
}

pub fn events_term(ast: &full_moon::ast::Ast) -> String {
    glist(verif::visit_events(ast).iter(), |(ty, range, comments)| {
        format!(
            "{{| ev_block := {}; ev_range := {}; ev_comments := {} |}}",
            gbool(ty == "VisitBlock"),
            gopt(*range, grange),
            glist(comments.iter(), |(s, e, text)| format!(
                "({}%N, {}%N, {})",
                s,
                e,
                glist(text.lines(), gcps)
            ))
        )
    })
}

const COMMENT_PARTS: [&str; 22] = [
    " selene: ", "selene:", "#", "# ", "allow", "deny", "warn", "(", ")", ",", "unused_variable", "shadowing",
    "nope", " ", "\t", "\u{a0}", "\u{2003}", "é", "((", "))", "selene", ":",
];

fn gen_comment(r: &mut Rng) -> String {
    if r.chance(1, 2) {
        // mostly valid
        let mut s = String::new();
        if r.chance(1, 3) { s.push('#'); }
        s.push_str(*r.pick(&[" selene: ", "selene:", "  selene :", " selene:\u{a0}"]));
        s.push_str(*r.pick(&["allow", "deny", "warn", "Allow", "permit", ""]));
        s.push_str(*r.pick(&["(", " (", "((", ""]));
        let k = r.range(0, 3);
        for j in 0..k {
            if j > 0 { s.push_str(*r.pick(&[",", ", ", " ,"])); }
            s.push_str(*r.pick(&["unused_variable", "shadowing", "nope", "empty_if", "é", ""]));
        }
        s.push_str(*r.pick(&[")", ") trailing", "", "))"]));
        s
    } else {
        (0..r.range(0, 7)).map(|_| *r.pick(&COMMENT_PARTS)).collect()
    }
}

fn neutralise(src: &str) -> String {
    src.replace("selene", "xelene")
}

/// The first piece of code of a file, measured independently of selene's `first_code`: the statement
/// (a final `return` / `break` included) that starts earliest.
pub fn first_code_of(ast: &full_moon::ast::Ast) -> Option<(usize, usize)> {
    use full_moon::node::Node;
    let mut best: Option<(usize, usize)> = None;
    let mut consider = |r: Option<(full_moon::tokenizer::Position, full_moon::tokenizer::Position)>| {
        if let Some((a, b)) = r {
            if best.map(|x| a.bytes() < x.0).unwrap_or(true) {
                best = Some((a.bytes(), b.bytes()));
            }
        }
    };
    for st in ast.nodes().stmts() {
        consider(st.range());
    }
    if let Some(l) = ast.nodes().last_stmt() {
        consider(l.range());
    }
    best
}

pub fn generate(seed: u64, n: usize, _thorough: bool) -> Cases {
    let mut cases = Cases::new("C08");
    let mut rng = Rng::new(seed);
    // parse_comment on generated texts
    for i in 0..n {
        let mut r = rng.fork(1_000_000 + i as u64);
        let text = gen_comment(&mut r);
        let res = verif::parse(&text);
        let term = gopt(res.as_ref(), |v| {
            glist(v.iter(), |(g, lint, var)| {
                format!(
                    "{{| fc_global := {}; fc_lint := {}; fc_var := {} |}}",
                    gbool(*g),
                    gstr(lint),
                    match *var { "allow" => "VAllow", "deny" => "VDeny", _ => "VWarn" }
                )
            })
        });
        cases.push(
            format!("CParse {} {}", gcps(&text), term),
            json!({"kind": "parse_comment", "text": text, "parsed": res.is_some(), "nontrivial": res.is_some()}),
        );
    }
    // end to end: real traversal + real lints, program vs its twin with the filters neutralised
    let checker: selene_lib::Checker<toml::value::Value> =
        selene_lib::Checker::new(selene_lib::CheckerConfig::default(), selene_lib::standard_library::StandardLibrary::from_name("lua51").unwrap()).unwrap();
    for i in 0..n {
        let mut r = rng.fork(2_000_000 + i as u64);
        let prog = gen_filter_program(&mut r);
        let twin = neutralise(&prog.src);
        let (ast, ast2) = match (
            full_moon::parse_fallible(&prog.src, full_moon::LuaVersion::lua51()).into_result(),
            full_moon::parse_fallible(&twin, full_moon::LuaVersion::lua51()).into_result(),
        ) {
            (Ok(a), Ok(b)) => (a, b),
            _ => continue,
        };
        let raw = match catch_unwind(AssertUnwindSafe(|| checker.test_on(&ast2))) { Ok(v) => v, Err(_) => continue };
        let imp = match catch_unwind(AssertUnwindSafe(|| checker.test_on(&ast))) { Ok(v) => v, Err(_) => continue };
        let raw_term = glist(raw.iter().enumerate(), |(j, d)| format!(
            "{{| d_code := {}; d_start := {}%N; d_payload := {}%N; d_sev := {} |}}",
            gstr(d.diagnostic.code), d.diagnostic.primary_label.range.0, j, gsev(d.severity)));
        let mut used = vec![false; raw.len()];
        let imp_term = glist(imp.iter(), |d| {
            let dg = &d.diagnostic;
            if dg.code == "invalid_lint_filter" {
                let one = [CheckerDiagnostic { diagnostic: Diagnostic::new_complete(dg.code, dg.message.clone(), Label::new(dg.primary_label.range), vec![], dg.secondary_labels.iter().map(|l| Label::new(l.range)).collect()), severity: d.severity }];
                let t = out_term(&one);
                t[1..t.len() - 1].to_string()
            } else {
                let mut payload = 999_999usize;
                for (j, rd) in raw.iter().enumerate() {
                    if !used[j] && rd.diagnostic.code == dg.code && rd.diagnostic.primary_label.range == dg.primary_label.range
                        && rd.diagnostic.message == dg.message && rd.diagnostic.secondary_labels == dg.secondary_labels {
                        used[j] = true;
                        payload = j;
                        break;
                    }
                }
                format!("(ODiag {{| d_code := {}; d_start := {}%N; d_payload := {}%N; d_sev := {} |}}, {})",
                    gstr(dg.code), dg.primary_label.range.0, payload, gsev(d.severity), gsev(d.severity))
            }
        });
        // every comment token of the file, wherever it is attached; and which of them sit directly before a
        // piece of code (the first token of a statement, expression, variable, call, field, parameter, ...:
        // the harness's own walk of the tree, not selene's NodeVisitor)
        let starts = piece_starts(&ast);
        let mut comments: Vec<(usize, usize, String)> = Vec::new();
        let mut before_piece: Vec<(usize, usize)> = Vec::new();
        for tok in ast.tokens().chain(std::iter::once(ast.eof())) {
            let at_piece = starts.contains(&tok.token().start_position().bytes());
            for (leading, t) in tok.leading_trivia().map(|t| (true, t)).chain(tok.trailing_trivia().map(|t| (false, t))) {
                match t.token_type() {
                    full_moon::tokenizer::TokenType::SingleLineComment { comment }
                    | full_moon::tokenizer::TokenType::MultiLineComment { comment, .. } => {
                        comments.push((t.start_position().bytes(), t.end_position().bytes(), comment.to_string()));
                        if leading && at_piece {
                            before_piece.push((t.start_position().bytes(), t.end_position().bytes()));
                        }
                    }
                    _ => {}
                }
            }
        }
        comments.sort();
        comments.dedup();
        before_piece.sort();
        before_piece.dedup();
        let comments_term = glist(comments.iter(), |(s, e, text)| format!("({}%N, {}%N, {})", s, e, glist(text.lines(), gcps)));
        let pieces_term = glist(before_piece.iter(), |r| grange(*r));
        cases.push(
            format!("CFull {} {} {} {} {} {}", events_term(&ast), gopt(first_code_of(&ast), grange), raw_term, imp_term, comments_term, pieces_term),
            json!({"kind": "end-to-end", "source": prog.src, "filters": prog.n_filters, "shapes": prog.shapes,
                   "raw_diagnostics": raw.len(), "diagnostics": imp.len(), "nontrivial": prog.n_filters > 0 && !raw.is_empty()}),
        );
    }
    for i in 0..n {
        let mut r = rng.fork(i as u64);
        let prog = gen_filter_program(&mut r);
        let ast = match full_moon::parse_fallible(&prog.src, full_moon::LuaVersion::lua51()).into_result() {
            Ok(a) => a,
            Err(_) => continue,
        };
        let (entries, oks, errs) = entries_term(&ast);
        let first_code = first_code_of(&ast);
        // interesting offsets: every endpoint of every filter range, +-1
        let mut offs: Vec<usize> = vec![0, prog.src.len()];
        for e in verif::filter_ranges(&ast).iter().flatten() {
            for x in [e.range.0, e.range.1, e.comment_range.0] {
                offs.push(x);
                offs.push(x + 1);
                offs.push(x.saturating_sub(1));
            }
        }
        let nd = r.range(0, 12);
        let mut ds = Vec::new();
        let mut ds_term = Vec::new();
        for j in 0..nd {
            let code = *r.pick(&CODES);
            let start = if r.chance(3, 4) { *r.pick(&offs) } else { r.below(prog.src.len() + 1) } as u32;
            let sev = *r.pick(&[Severity::Error, Severity::Warning, Severity::Allow]);
            ds.push(CheckerDiagnostic {
                diagnostic: Diagnostic::new(code, j.to_string(), Label::new((start, start + 1))),
                severity: sev,
            });
            ds_term.push(format!(
                "{{| d_code := {}; d_start := {}%N; d_payload := {}%N; d_sev := {} |}}",
                gstr(code), start, j, gsev(sev)
            ));
        }
        let inv_sev = *r.pick(&[Severity::Error, Severity::Warning, Severity::Allow]);
        let result = catch_unwind(AssertUnwindSafe(|| verif::filter_diagnostics(&ast, ds, inv_sev)));
        let out = match &result {
            Ok(v) => format!("(Some {})", out_term(v)),
            Err(_) => "None".to_string(),
        };
        cases.push(
            format!(
                "CMachine {} {} {} {} {}",
                entries,
                gopt(first_code, grange),
                glist(ds_term.iter(), |s| s.clone()),
                gsev(inv_sev),
                out
            ),
            json!({"kind": "machine", "source": prog.src, "filters": prog.n_filters, "accepted": oks, "unknown_lint": errs,
                   "shapes": prog.shapes, "diagnostics": nd, "panicked": result.is_err(),
                   "nontrivial": oks > 0 && nd > 0}),
        );
    }
    cases
}
