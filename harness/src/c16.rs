//! C16: lua_version() of generated libraries, and the construct matrix against the real parser.
use crate::cases::Cases;
use crate::gal::*;
use crate::genlib::gen_versions;
use crate::rng::Rng;
use selene_lib::standard_library::{LuaVersion, LuaVersionError, StandardLibrary};
use serde_json::json;
use std::panic::{catch_unwind, AssertUnwindSafe};

pub const CONSTRUCTS: &[(&str, &[&str])] = &[
    ("CGoto", &["goto done\n::done::\n", "do goto l end ::l::\n", "::top:: local x = 1\n"]),
    ("CIntDiv", &["local x = 7 // 2\n", "return a // b\n"]),
    ("CBitAndOr", &["local x = 5 & 3\n", "local x = 5 | 3\n", "return f(a & b)\n"]),
    ("CBitOther", &["local x = 5 ~ 3\n", "local x = ~5\n", "local x = 1 << 2\n", "local x = 8 >> 1\n"]),
    ("CAttrib", &["local x <const> = 1\n", "local f <close> = nil\n"]),
    ("CLuauSyntax", &[
        "local x: number = 1\n",
        "type T = number\n",
        "local x = 1 x += 1\n",
        "local s = `a{1}b`\n",
        "for i = 1, 2 do continue end\n",
        "local y = if a then 1 else 2\n",
        "local n = 1_000\n",
    ]),
    ("CBinLit", &["local x = 0b101\n"]),
    ("CJitLit", &["local x = 1LL\n", "local x = 1ULL\n", "local x = 2i\n"]),
    ("CHexFloat", &["local x = 0x1p4\n"]),
    ("CEmptyStmt", &["local x = 1;;\n", ";\n"]),
];

fn dialect_term(v: full_moon::LuaVersion) -> String {
    format!(
        "{{| d_luau := {}; d_52 := {}; d_53 := {}; d_54 := {}; d_jit := {} |}}",
        gbool(v.has_luau()),
        gbool(v.has_lua52()),
        gbool(v.has_lua53()),
        gbool(v.has_lua54()),
        gbool(v.has_luajit())
    )
}

pub fn parse_outcome(src: &str, v: full_moon::LuaVersion) -> &'static str {
    match catch_unwind(AssertUnwindSafe(|| full_moon::parse_fallible(src, v).into_result().is_ok())) {
        Ok(true) => "PAccepted",
        Ok(false) => "PRejected",
        Err(_) => "PPanic",
    }
}

fn all_versions() -> Vec<LuaVersion> {
    vec![LuaVersion::Lua51, LuaVersion::Lua52, LuaVersion::Lua53, LuaVersion::Lua54, LuaVersion::Luau, LuaVersion::LuaJIT]
}

pub fn generate(seed: u64, n: usize, _thorough: bool) -> Cases {
    let mut cases = Cases::new("C16");
    let mut rng = Rng::new(seed);
    // (2) the whole construct matrix: every subset of the six version names x every sample
    let vs_all = all_versions();
    for mask in 0u32..64 {
        let vs: Vec<LuaVersion> = (0..6).filter(|i| mask & (1 << i) != 0).map(|i| vs_all[i].clone()).collect();
        let mut lib = StandardLibrary::default();
        lib.lua_versions = vs.clone();
        let (dialect, _) = lib.lua_version();
        for (cname, samples) in CONSTRUCTS {
            for s in samples.iter() {
                let res = parse_outcome(s, dialect);
                cases.push(
                    format!("CParse {} {} {}", cname, glist(vs.iter(), gversion), res),
                    json!({"kind": "parse-matrix", "construct": cname, "source": s,
                           "versions": vs.iter().map(|v| v.to_str().to_string()).collect::<Vec<_>>(), "result": res}),
                );
            }
        }
    }
    // (1) lua_version() on generated version lists (duplicates, unknown names, any order)
    for i in 0..n {
        let mut r = rng.fork(i as u64);
        let mut vs = gen_versions(&mut r);
        if r.chance(1, 2) {
            vs.extend(gen_versions(&mut r));
        }
        if r.chance(1, 5) {
            vs.push(LuaVersion::Unknown((*r.pick(&["lua55", "Lua52", "", "luau "])).to_string()));
        }
        let mut lib = StandardLibrary::default();
        lib.lua_versions = vs.clone();
        let (dialect, errs) = lib.lua_version();
        let errs: Vec<String> = errs
            .iter()
            .map(|e| match e {
                LuaVersionError::Unknown(s) => s.to_string(),
                LuaVersionError::FeatureNotEnabled(s) => format!("feature:{s}"),
            })
            .collect();
        cases.push(
            format!("CVersions {} {} {}", glist(vs.iter(), gversion), dialect_term(dialect), glist(errs.iter(), |s| gstr(s))),
            json!({"kind": "lua_version", "versions": vs.iter().map(|v| v.to_str().to_string()).collect::<Vec<_>>(),
                   "errors": errs, "nontrivial": vs.len() > 1}),
        );
    }
    cases
}
