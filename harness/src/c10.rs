//! C10: the same file under different [lints] severity assignments.
use crate::c08::{events_term, grange, gsev, out_term};
use crate::cases::Cases;
use crate::gal::*;
use crate::genfilter::*;
use crate::rng::Rng;
use selene_lib::lints::{Diagnostic, Label};
use selene_lib::{standard_library::StandardLibrary, verif, Checker, CheckerConfig, CheckerDiagnostic, LintVariation};
use serde_json::json;
use std::panic::{catch_unwind, AssertUnwindSafe};

pub fn lint_names() -> Vec<String> {
    let src = std::fs::read_to_string("/repo/selene-lib/src/lib.rs").unwrap_or_default();
    let mut names = Vec::new();
    let mut inside = false;
    for line in src.lines() {
        let t = line.trim();
        if t.starts_with("use_lints! {") {
            inside = true;
            continue;
        }
        if inside {
            if let Some((name, rest)) = t.split_once(':') {
                if rest.trim_start().starts_with("lints::") && name.chars().all(|c| c.is_ascii_lowercase() || c == '_' || c.is_ascii_digit()) {
                    names.push(name.to_string());
                }
            }
        }
    }
    names
}

fn fixtures() -> Vec<String> {
    let mut out = Vec::new();
    fn walk(dir: &std::path::Path, out: &mut Vec<String>) {
        if let Ok(rd) = std::fs::read_dir(dir) {
            let mut entries: Vec<_> = rd.flatten().map(|e| e.path()).collect();
            entries.sort();
            for p in entries {
                if p.is_dir() {
                    walk(&p, out);
                } else if p.extension().map(|e| e == "lua").unwrap_or(false) {
                    if let Ok(s) = std::fs::read_to_string(&p) {
                        out.push(s);
                    }
                }
            }
        }
    }
    walk(std::path::Path::new("/repo/selene-lib/tests"), &mut out);
    out
}

fn neutralise(src: &str) -> String {
    src.replace("selene", "xelene")
}

/// lint settings ([config]) that differ from the defaults: the severities must not influence how a lint is set up
const SETTINGS: [&str; 4] = [
    "",
    "[config]\nunused_variable = { ignore_pattern = \"^v1$\" }\n",
    "[config]\nshadowing = { ignore_pattern = \"^v0$\" }\nunused_variable = { ignore_pattern = \"^w$\", allow_unused_self = false }\n",
    "[config]\nempty_if = { comments_count = true }\nunused_variable = { ignore_pattern = \"^v[02]$\" }\n",
];

/// programs for the lints that only run under a Roblox library
const ROBLOX_SOURCES: [&str; 6] = [
    "local c = Color3.new(255, 128, 0)\nprint(c)\n",
    "local u = UDim2.new(1, 0, 1, 0)\nprint(u, Color3.new(2, 0, 0))\n",
    "-- selene: allow(roblox_incorrect_color3_new_bounds)\nlocal c = Color3.new(255, 0, 0)\nlocal d = Color3.new(0, 255, 0)\nprint(c, d)\n",
    "local Roact = require(script.Roact)\nprint(Roact.createElement(\"Frame\", { ThisPropertyDoesNotExist = true }))\nprint(Color3.new(3, 3, 3))\n",
    "local function clone(t)\n  local r = {}\n  for k, v in pairs(t) do\n    r[k] = v\n  end\n  return r\nend\nprint(clone, UDim2.new(0.5, 0, 0.5, 0))\n",
    "-- selene: deny(roblox_suspicious_udim2_new)\nprint(UDim2.new(1, 1))\nprint(Color3.new(-1, 0, 0), UDim2.new(0, 5, 0, 5))\n",
];

fn checker(cfg: &[(String, LintVariation)], settings: &str, roblox: bool) -> Checker<toml::value::Value> {
    let mut c: CheckerConfig<toml::value::Value> = toml::from_str(settings).unwrap();
    for (k, v) in cfg {
        c.lints.insert(k.clone(), *v);
    }
    Checker::new(c, if roblox { StandardLibrary::roblox_base() } else { StandardLibrary::from_name("lua51").unwrap() }).unwrap()
}

pub fn generate(seed: u64, n: usize, _thorough: bool) -> Cases {
    let mut cases = Cases::new("C10");
    let mut rng = Rng::new(seed);
    let names = lint_names();
    let fx = fixtures();
    let bases: Vec<Checker<toml::value::Value>> = SETTINGS.iter().map(|t| checker(&[], t, false)).collect();
    let roblox_bases: Vec<Checker<toml::value::Value>> = SETTINGS.iter().map(|t| checker(&[], t, true)).collect();
    for i in 0..n {
        let mut r = rng.fork(i as u64);
        let roblox = r.chance(1, 6);
        let (src, shapes, nf) = if roblox {
            let s = *r.pick(&ROBLOX_SOURCES);
            (s.to_string(), vec!["roblox-library"], s.matches("selene:").count())
        } else if r.chance(1, 4) && !fx.is_empty() {
            (fx[r.below(fx.len())].clone(), vec!["fixture"], 0)
        } else {
            let p = gen_filter_program(&mut r);
            (p.src, p.shapes, p.n_filters)
        };
        let twin = neutralise(&src);
        let (ast, ast2) = match (
            full_moon::parse_fallible(&src, full_moon::LuaVersion::lua51()).into_result(),
            full_moon::parse_fallible(&twin, full_moon::LuaVersion::lua51()).into_result(),
        ) {
            (Ok(a), Ok(b)) => (a, b),
            _ => continue,
        };
        // configuration: each lint unset / allow / warn / deny
        let mode = r.below(5);
        let mut cfg: Vec<(String, LintVariation)> = Vec::new();
        for name in &names {
            let v = match mode {
                0 => Some(LintVariation::Allow),
                1 => Some(LintVariation::Warn),
                2 => Some(LintVariation::Deny),
                _ => match r.below(4) {
                    0 => None,
                    1 => Some(LintVariation::Allow),
                    2 => Some(LintVariation::Warn),
                    _ => Some(LintVariation::Deny),
                },
            };
            if let Some(v) = v {
                cfg.push((name.clone(), v));
            }
        }
        let which = if r.chance(1, 2) { 0 } else { r.below(SETTINGS.len()) };
        let base = if roblox { &roblox_bases[which] } else { &bases[which] };
        let ck = checker(&cfg, SETTINGS[which], roblox);
        let raw = match catch_unwind(AssertUnwindSafe(|| base.test_on(&ast2))) { Ok(v) => v, Err(_) => continue };
        let imp = match catch_unwind(AssertUnwindSafe(|| ck.test_on(&ast))) { Ok(v) => v, Err(_) => continue };
        let imp_plain = match catch_unwind(AssertUnwindSafe(|| ck.test_on(&ast2))) { Ok(v) => v, Err(_) => continue };
        let found_term = glist(raw.iter().enumerate(), |(j, d)| format!(
            "{{| fd_lint := {}; fd_code := {}; fd_start := {}%N; fd_payload := {}%N |}}",
            gstr(d.diagnostic.code), gstr(d.diagnostic.code), d.diagnostic.primary_label.range.0, j));
        let term_of = |ds: &[CheckerDiagnostic]| -> String {
            let mut used = vec![false; raw.len()];
            glist(ds.iter(), |d| {
                let dg = &d.diagnostic;
                if dg.code == "invalid_lint_filter" {
                    let one = [CheckerDiagnostic { diagnostic: Diagnostic::new_complete(dg.code, dg.message.clone(), Label::new(dg.primary_label.range), vec![], dg.secondary_labels.iter().map(|l| Label::new(l.range)).collect()), severity: d.severity }];
                    let t = out_term(&one);
                    t[1..t.len() - 1].to_string()
                } else {
                    let mut payload = 999_999usize;
                    for (j, rd) in raw.iter().enumerate() {
                        if !used[j] && rd.diagnostic.code == dg.code && rd.diagnostic.primary_label.range == dg.primary_label.range
                            && rd.diagnostic.message == dg.message && rd.diagnostic.notes == dg.notes && rd.diagnostic.secondary_labels == dg.secondary_labels {
                            used[j] = true;
                            payload = j;
                            break;
                        }
                    }
                    format!("(ODiag {{| d_code := {}; d_start := {}%N; d_payload := {}%N; d_sev := {} |}}, {})",
                        gstr(dg.code), dg.primary_label.range.0, payload, gsev(d.severity), gsev(d.severity))
                }
            })
        };
        let cfg_term = glist(cfg.iter(), |(k, v)| format!("({}, {})", gstr(k), match v { LintVariation::Allow => "VAllow", LintVariation::Deny => "VDeny", LintVariation::Warn => "VWarn" }));
        cases.push(
            format!("CCfg {} {} {} {} {} {}", cfg_term, events_term(&ast), gopt(crate::c08::first_code_of(&ast), grange), found_term, term_of(&imp), term_of(&imp_plain)),
            json!({"kind": if nf > 0 { "with-filters" } else { "plain" }, "source": src, "shapes": shapes,
                   "config": cfg.iter().map(|(k, v)| format!("{k}={v:?}")).collect::<Vec<_>>(), "config_mode": mode, "settings": SETTINGS[which], "library": if roblox { "roblox" } else { "lua51" },
                   "found": raw.len(), "visible": imp.iter().filter(|d| d.severity != selene_lib::lints::Severity::Allow).count(),
                   "nontrivial": !raw.is_empty()}),
        );
    }
    cases
}
