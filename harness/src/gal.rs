//! Printing values as Gallina terms (for cases.v files evaluated by coqc).
use selene_lib::standard_library::*;
use std::collections::BTreeMap;

pub fn gstr(s: &str) -> String {
    let printable = s
        .bytes()
        .all(|b| (0x20..0x7f).contains(&b));
    if printable {
        format!("\"{}\"", s.replace('"', "\"\""))
    } else {
        let bytes: Vec<String> = s.bytes().map(|b| b.to_string()).collect();
        format!("(s_of [{}]%N)", bytes.join(";"))
    }
}

pub fn glist<T>(xs: impl IntoIterator<Item = T>, f: impl FnMut(T) -> String) -> String {
    let v: Vec<String> = xs.into_iter().map(f).collect();
    format!("[{}]", v.join("; "))
}

pub fn gopt<T>(x: Option<T>, f: impl Fn(T) -> String) -> String {
    match x {
        Some(v) => format!("(Some {})", f(v)),
        None => "None".to_string(),
    }
}

pub fn gbool(b: bool) -> &'static str {
    if b {
        "true"
    } else {
        "false"
    }
}

pub fn gkey(k: &str) -> String {
    glist(k.split('.'), gstr)
}

pub fn gdeprecated(d: &Deprecated) -> String {
    format!(
        "{{| dep_message := {}; dep_replace := {} |}}",
        gstr(&d.message),
        glist(d.replace.iter(), |s| gstr(s))
    )
}

pub fn gargtype(t: &ArgumentType) -> String {
    match t {
        ArgumentType::Any => "AAny".into(),
        ArgumentType::Bool => "ABool".into(),
        ArgumentType::Constant(cs) => format!("(AConstant {})", glist(cs.iter(), |s| gstr(s))),
        ArgumentType::Display(d) => format!("(ADisplay {})", gstr(d)),
        ArgumentType::Function => "AFunction".into(),
        ArgumentType::Nil => "ANil".into(),
        ArgumentType::Number => "ANumber".into(),
        ArgumentType::String => "Lib.AString".into(),
        ArgumentType::Table => "Lib.ATable".into(),
        ArgumentType::Vararg => "AVararg".into(),
    }
}

pub fn gargument(a: &Argument) -> String {
    let req = match &a.required {
        Required::NotRequired => "NotRequired".to_string(),
        Required::Required(m) => format!("(Required {})", gopt(m.as_ref(), |s| gstr(s))),
    };
    let obs = match a.observes {
        Observes::ReadWrite => "ObsReadWrite",
        Observes::Read => "ObsRead",
        Observes::Write => "ObsWrite",
    };
    format!(
        "{{| arg_required := {}; arg_type := {}; arg_observes := {}; arg_deprecated := {} |}}",
        req,
        gargtype(&a.argument_type),
        obs,
        gopt(a.deprecated.as_ref(), gdeprecated)
    )
}

pub fn gfield(f: &Field) -> String {
    let kind = match &f.field_kind {
        FieldKind::Any => "FAny".to_string(),
        FieldKind::Function(b) => format!(
            "(FFunction {{| fn_args := {}; fn_method := {}; fn_must_use := {} |}})",
            glist(b.arguments.iter(), gargument),
            gbool(b.method),
            gbool(b.must_use)
        ),
        FieldKind::Property(w) => format!(
            "(FProperty {})",
            match w {
                PropertyWritability::ReadOnly => "ReadOnly",
                PropertyWritability::NewFields => "NewFields",
                PropertyWritability::OverrideFields => "OverrideFields",
                PropertyWritability::FullWrite => "FullWrite",
            }
        ),
        FieldKind::Struct(s) => format!("(FStruct {})", gstr(s)),
        FieldKind::Removed => "FRemoved".to_string(),
    };
    format!(
        "{{| f_kind := {}; f_deprecated := {} |}}",
        kind,
        gopt(f.deprecated.as_ref(), gdeprecated)
    )
}

pub fn gfmap(m: &BTreeMap<String, Field>) -> String {
    glist(m.iter(), |(k, f)| format!("({}, {})", gkey(k), gfield(f)))
}

pub fn gversion(v: &LuaVersion) -> String {
    match v {
        LuaVersion::Lua51 => "Lua51".into(),
        LuaVersion::Lua52 => "Lua52".into(),
        LuaVersion::Lua53 => "Lua53".into(),
        LuaVersion::Lua54 => "Lua54".into(),
        LuaVersion::Luau => "Luau".into(),
        LuaVersion::LuaJIT => "LuaJIT".into(),
        LuaVersion::Unknown(s) => format!("(VUnknown {})", gstr(s)),
    }
}

pub fn glib(l: &StandardLibrary) -> String {
    format!(
        "{{| l_base := {}; l_name := {}; l_globals := {}; l_structs := {}; l_versions := {} |}}",
        gopt(l.base.as_ref(), |s| gstr(s)),
        gopt(l.name.as_ref(), |s| gstr(s)),
        gfmap(&l.globals),
        glist(l.structs.iter(), |(k, m)| format!("({}, {})", gstr(k), gfmap(m))),
        glist(l.lua_versions.iter(), gversion)
    )
}
