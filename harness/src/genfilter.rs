//! Programs with lint-filter comments at many attachment points.
use crate::rng::Rng;

pub const LINTS: [&str; 4] = ["unused_variable", "undefined_variable", "shadowing", "empty_if"];
pub const VARIATIONS: [&str; 3] = ["allow", "deny", "warn"];

pub struct FilterProgram {
    pub src: String,
    pub n_filters: usize,
    pub shapes: Vec<&'static str>,
}

fn filter_comment(r: &mut Rng, shapes: &mut Vec<&'static str>, global_ok: bool) -> String {
    let lint = |r: &mut Rng| -> String {
        match r.below(12) {
            0 => "nonexistent_lint".to_string(),
            1 => "Unused_Variable".to_string(),
            _ => (*r.pick(&LINTS)).to_string(),
        }
    };
    let var = (*r.pick(&VARIATIONS)).to_string();
    let global = global_ok && r.chance(1, 5);
    let hash = if global { "#" } else { "" };
    match r.below(14) {
        0 => {
            shapes.push("comma-list");
            format!("--{hash} selene: {var}({}, {})\n", lint(r), lint(r))
        }
        1 => {
            shapes.push("block-comment");
            format!("--[[{hash} selene: {var}({}) ]]\n", lint(r))
        }
        2 => {
            shapes.push("multi-line-block");
            format!("--[[ text\n{hash} selene: {var}({})\n more ]]\n", lint(r))
        }
        3 => {
            shapes.push("malformed");
            (*r.pick(&[
                "-- selene: allow unused_variable\n",
                "-- selene: allow(unused_variable\n",
                "-- selene: (unused_variable)\n",
                "-- selene: allow()\n",
                "-- selene allow(unused_variable)\n",
                "-- selene: permit(unused_variable)\n",
                "-- ordinary comment\n",
                "--selene:allow(unused_variable)extra\n",
                "--## selene: allow(unused_variable)\n",
                "-- ## selene: deny(undefined_variable)\n",
                "--#  # selene: allow(shadowing)\n",
            ]))
            .to_string()
        }
        4 => {
            shapes.push("spaces");
            if r.chance(1, 2) {
                format!("--{hash}   selene :  {var} ( {} )\n", lint(r))
            } else {
                // tabs and a line break inside a block comment count as whitespace as well
                format!("--[[{hash}\tselene:\t{var}(\n\t{}\t)\n]]\n", lint(r))
            }
        }
        _ => {
            shapes.push(if global { "global" } else { "inline" });
            format!("--{hash} selene: {var}({})\n", lint(r))
        }
    }
}

fn gen_block(r: &mut Rng, depth: usize, out: &mut String, ind: usize, n: &mut usize, shapes: &mut Vec<&'static str>, names: &mut usize) {
    let count = r.range(1, if depth == 0 { 4 } else { 3 });
    for _ in 0..count {
        let pad = "  ".repeat(ind);
        // 0-2 filter comments before the statement
        let k = match r.below(10) {
            0..=4 => 0,
            5..=8 => 1,
            _ => 2,
        };
        for _ in 0..k {
            out.push_str(&pad);
            out.push_str(&filter_comment(r, shapes, true));
            *n += 1;
        }
        let kind = if depth >= 3 { r.below(3) } else { r.below(8) };
        *names += 1;
        let v = format!("v{}", *names % 3);
        match kind {
            0 => out.push_str(&format!("{pad}local {v} = 1\n")),
            1 => out.push_str(&format!("{pad}print(u{})\n", *names % 2)),
            2 => {
                if r.chance(1, 3) {
                    out.push_str(&format!("{pad}g0,\n{pad}"));
                    out.push_str(&filter_comment(r, shapes, false));
                    shapes.push("before-assignment-target");
                    *n += 1;
                    out.push_str(&format!("{pad}g1, t.f = undefined_a, 2, 3\n"));
                } else {
                    out.push_str(&format!("{pad}local {v}, w = undefined_a, 2\n"));
                }
            }
            3 => {
                out.push_str(&format!("{pad}do\n"));
                gen_block(r, depth + 1, out, ind + 1, n, shapes, names);
                if r.chance(1, 6) {
                    out.push_str(&pad);
                    out.push_str(&filter_comment(r, shapes, false));
                    shapes.push("before-end");
                    *n += 1;
                }
                out.push_str(&format!("{pad}end\n"));
            }
            4 => {
                out.push_str(&format!("{pad}if {v} then\n"));
                if r.chance(1, 2) {
                    gen_block(r, depth + 1, out, ind + 1, n, shapes, names);
                }
                if r.chance(1, 2) {
                    if r.chance(1, 4) {
                        out.push_str(&pad);
                        out.push_str(&filter_comment(r, shapes, false));
                        shapes.push("before-else");
                        *n += 1;
                    }
                    out.push_str(&format!("{pad}else\n"));
                    gen_block(r, depth + 1, out, ind + 1, n, shapes, names);
                }
                out.push_str(&format!("{pad}end\n"));
            }
            5 => {
                out.push_str(&format!("{pad}local function f{}(a, {v})\n", *names % 2));
                gen_block(r, depth + 1, out, ind + 1, n, shapes, names);
                out.push_str(&format!("{pad}end\n"));
            }
            6 => {
                // filter inside an expression (before a table field / argument on its own line)
                out.push_str(&format!("{pad}local t = {{\n{pad}  "));
                out.push_str(&filter_comment(r, shapes, false));
                shapes.push("inside-expression");
                *n += 1;
                out.push_str(&format!("{pad}  undefined_b,\n{pad}}}\n"));
            }
            _ => {
                out.push_str(&format!("{pad}for i = 1, 2 do\n"));
                gen_block(r, depth + 1, out, ind + 1, n, shapes, names);
                out.push_str(&format!("{pad}end\n"));
            }
        }
    }
}

/// A small program carrying exactly one filter comment, of a chosen shape, right before a
/// statement that has findings of several lints inside it.
pub fn gen_single_filter_program(r: &mut Rng) -> FilterProgram {
    let lint = *r.pick(&LINTS);
    let var = *r.pick(&VARIATIONS);
    let global = r.chance(1, 6);
    let hash = if global { "#" } else { "" };
    let (comment, shape): (String, &'static str) = match r.below(8) {
        0 | 1 => (format!("--[[ some text first\n{hash} selene: {var}({lint})\n and after ]]\n"), "single:multi-line-block"),
        2 => (format!("--[[{hash} selene: {var}({lint}) ]]\n"), "single:block-comment"),
        3 => (format!("--[==[\n{hash}selene:{var}({lint})]==]\n"), "single:long-bracket"),
        4 => (format!("--{hash} selene: {var}({lint}, shadowing)\n"), "single:comma-list"),
        _ => (format!("--{hash} selene: {var}({lint})\n"), "single:line"),
    };
    let body = "do\n  local v0 = 1\n  local v0 = undefined_a\n  if v0 then\n  end\nend\n";
    let src = match r.below(3) {
        0 => format!("{comment}{body}"),
        1 => format!("local before = 1\n{comment}{body}local after = undefined_b\n"),
        _ => format!("local function f(a)\n{comment}{body}end\n"),
    };
    FilterProgram { src, n_filters: 1, shapes: vec![shape] }
}

/// Files whose only top-level code is a `return`: filters before it, inside its expression, after it.
pub fn gen_return_only_program(r: &mut Rng) -> FilterProgram {
    let mut shapes = vec!["return-only-file"];
    let mut n = 0;
    let mut src = String::new();
    if r.chance(1, 2) {
        src.push_str(&filter_comment(r, &mut shapes, true));
        n += 1;
    }
    src.push_str("return {\n");
    for _ in 0..r.range(1, 3) {
        if r.chance(2, 3) {
            src.push_str("  ");
            src.push_str(&filter_comment(r, &mut shapes, true));
            n += 1;
        }
        src.push_str(*r.pick(&["  value = undefined_thing,\n", "  f = function()\n    local v0 = 1\n    local v0 = undefined_a\n  end,\n", "  1,\n"]));
    }
    src.push_str("}\n");
    if r.chance(1, 3) {
        src.push_str(&filter_comment(r, &mut shapes, true));
        n += 1;
    }
    FilterProgram { src, n_filters: n, shapes }
}

pub fn gen_filter_program(r: &mut Rng) -> FilterProgram {
    if r.chance(1, 12) {
        return gen_return_only_program(r);
    }
    if r.chance(1, 3) {
        return gen_single_filter_program(r);
    }
    let mut src = String::new();
    let mut n = 0;
    let mut shapes = Vec::new();
    let mut names = 0;
    if r.chance(1, 3) {
        // leading global filters
        for _ in 0..r.range(1, 2) {
            let lint = *r.pick(&LINTS);
            src.push_str(&format!("--# selene: {}({})\n", r.pick(&VARIATIONS), lint));
            shapes.push("global-leading");
            n += 1;
        }
    }
    gen_block(r, 0, &mut src, 0, &mut n, &mut shapes, &mut names);
    if r.chance(1, 5) {
        src.push_str(&filter_comment(r, &mut shapes, true));
        shapes.push("at-eof");
        n += 1;
    }
    if r.chance(1, 8) {
        src = src.replace('\n', "\r\n");
    }
    FilterProgram { src, n_filters: n, shapes }
}
