//! C11: totality and well-formedness. (a) Deprecated::try_instead on generated patterns/arguments;
//! (b) Checker::new + test_on under catch_unwind on parseable inputs x libraries x configurations, every
//! label range and code dumped for Coq to judge.
use crate::cases::Cases;
use full_moon::node::Node;
use crate::gal::*;
use crate::genlib::*;
use crate::genlua::gen_program;
use crate::lint::load_std;
use crate::meta::fixtures;
use crate::rng::Rng;
use selene_lib::{standard_library::*, Checker, CheckerConfig};
use serde_json::json;
use std::panic::{catch_unwind, AssertUnwindSafe};

const FMT_ATOMS: [&str; 14] = ["%", "%%", "%1", "%2", "%0", "%10", "%...", ".", "..", "x(", ")", ", ", "%4294967296", "9"];
const SPECIAL: [&str; 24] = [
    "print(\"\\1\u{0663}\")\n",
    "local s = \"\\12\u{0969}\u{0663} \\x4\u{ff11} \\u{1\u{0663}}\"\n",
    "print('\\9\u{0e53}\u{0e53}', \"\\255\u{ff15}\")\n",
    "print(\"a\\\u{0663}b\", \"\\z\u{0663}\")\n",
    "",
    "-- only a comment é\n",
    "--[[ block\ncomment ]]",
    "print(\"\\é\")\n",
    "local s = \"é\\q日本\\xZZ\\u{110000}\\300\"\n",
    "local s = '\\\"' .. \"\\'\" .. \"\\z  x\" .. \"a\\\nb\"\n",
    "local é = 1\n",
    "print(\"日本語\", undefined_é)\r\nlocal x = 1\r\n",
    "x = 1\r\ny = x\r\n",
    "local t = { [\"é\"] = 1, [\"é\"] = 2, é = 3 }\n",
    "if x then\n-- é\nend\nwhile true do --[[日本]] end\n",
    "return\n",
    "local a <const> = 1\nlocal b = 7 // 2\ngoto done\n::done::\n",
    "local x = if a then 1 else 2\nlocal s = `a{x}b`\nlocal y: number = 5 & 3\n",
    "for i = 1, #\"é\" do print(i) end for i = #t, 1 do end\n",
    "print(\t'\t'\t)\n\n\n",
    "--# selene: allow(unused_variable)\n-- nothing but comments\n",
    "-- selene: deny(shadowing)\n--[[ selene: allow(empty_if) ]]",
    "local labels = {}\nfor key, value in pairs(localized(\"\u{3088}\u{3046}\u{3053}\u{305d}\u{3001}\u{3053}\u{308c}\u{306f}\u{7ffb}\u{8a33}\u{30c7}\u{30fc}\u{30bf}\u{3067}\u{3059}\u{3001}\u{3068}\u{3066}\u{3082}\u{9577}\u{3044}\u{6587}\u{5b57}\u{5217}\")) do\n  labels[key] = value\nend\nprint(labels)\n",
    "local out = {}\nfor i, v in ipairs(t.\u{e9}\u{e9}\u{e9}\u{e9}\u{e9}\u{e9}\u{e9}\u{e9}\u{e9}\u{e9}\u{e9}\u{e9}\u{e9}\u{e9}\u{e9}\u{e9}\u{e9}\u{e9}\u{e9}\u{e9}\u{e9}\u{e9}\u{e9}\u{e9}\u{e9}\u{e9}\u{e9}\u{e9}\u{e9}\u{e9}\u{e9}) do\n  out[i] = v\nend\nprint(out)\n",
];

/// programs whose diagnostics carry labels computed from parts of nodes; swept with a multi-byte comment after every token
const SWEEP: [&str; 8] = [
    "math.max(1, 2)\nlocal s = string.format(\"%d\", 1)\ntostring(1)\nprint(s)\n",
    "local t = { [1] = 1, [1] = 2, a = 3, a = 4, 5 }\nprint(t, table.getn(t))\n",
    "local function f(a, b) return a end\nf(1, 2, 3)\nf()\nlocal g = function(...) end\ng(1)\n",
    "for i = 10, 1 do print(i) end\nlocal a, b = 1\na, b = 1, 2, 3\nprint(a, b)\n",
    "if x == nil then elseif x == nil then end\nlocal y = x ~= x, x / 0, {} == {}\nprint(y)\n",
    "string.foo(1)\nmath.floor(\"x\")\nprint(#\"a\" .. 1, string.format(\"%d\"))\n",
    "local a, b = 1, 2\na = b\nb = a\nprint(type(a == \"number\"), (a))\nif (a) then end\n",
    "_G.x = 1\nx = 2\nlocal x = 3\nlocal x = 4\nprint(x, t:m(), os.execute())\n",
];
const NUMBER_KEYS: [&str; 12] = [
    "0x10000000000000000", "0xffffffffffffffffffff", "1e400", "0x1p4", "0xA.8p0", "0b101", "1LL", "0x10ULL", "1_000", ".5", "5.", "0x.8",
];

const LINT_NAMES: [&str; 12] = [
    "unused_variable", "shadowing", "empty_if", "empty_loop", "deprecated", "global_usage", "high_cyclomatic_complexity",
    "undefined_variable", "multiple_statements", "bad_string_escape", "must_use", "mixed_table",
];

fn gen_config(r: &mut Rng) -> String {
    let mut s = String::new();
    let mut lints = String::from("[lints]\n");
    for n in LINT_NAMES {
        if r.chance(1, 4) {
            lints.push_str(&format!("{} = \"{}\"\n", n, r.pick(&["allow", "warn", "deny"])));
        }
    }
    s.push_str(&lints);
    let mut cfg = String::from("[config]\n");
    if r.chance(1, 3) {
        cfg.push_str(&format!("unused_variable = {{ allow_unused_self = {}, ignore_pattern = \"{}\" }}\n", r.chance(1, 2), r.pick(&["^_", "", "x", "é+", "^$"])));
    }
    if r.chance(1, 4) {
        cfg.push_str(&format!("shadowing = {{ ignore_pattern = \"{}\" }}\n", r.pick(&["^_", "", "."])));
    }
    if r.chance(1, 4) {
        cfg.push_str(&format!("empty_if = {{ comments_count = {} }}\n", r.chance(1, 2)));
    }
    if r.chance(1, 4) {
        cfg.push_str(&format!("empty_loop = {{ comments_count = {} }}\n", r.chance(1, 2)));
    }
    if r.chance(1, 4) {
        cfg.push_str(&format!("high_cyclomatic_complexity = {{ maximum_complexity = {} }}\n", r.pick(&[0u32, 1, 2, 40])));
    }
    if r.chance(1, 4) {
        cfg.push_str(&format!("global_usage = {{ ignore_pattern = \"{}\" }}\n", r.pick(&["^_", "", "a"])));
    }
    if r.chance(1, 4) {
        cfg.push_str(*r.pick(&["deprecated = { allow = [\"a.*\", \"b\", \"table.getn\"] }\n",
                               "deprecated = { allow = [\"table.getn\", \"math.*.huge\", \"string.format.x.y\", \"*\", \"math\", \"table.getn.more\"] }\n",
                               "deprecated = { allow = [] }\n"]));
    }
    if r.chance(1, 6) {
        // invalid regular expressions: refused when the checker is built (then the case is outside the property), never later
        let bad = *r.pick(&["(", "[a-", "*", "(?P<n>"]);
        cfg.push_str(&format!("{} = {{ ignore_pattern = \"{}\" }}\n", r.pick(&["unscoped_variables", "unused_variable", "shadowing", "global_usage"]), bad));
    }
    s.push_str(&cfg);
    s
}

fn mutate(r: &mut Rng, src: &str) -> String {
    let mut s = src.to_string();
    for _ in 0..r.below(3) {
        match r.below(5) {
            0 => s = s.replace('\n', "\r\n"),
            1 => s = format!("-- é日本\n{s}"),
            2 => s = s.replacen('"', "\"é\\q", 1),
            3 => s = s.replacen(' ', " --[[😀]] ", 1),
            _ => s = format!("{s}\nprint(\"\\é\", '\\\"', \"\\256\", \"\\1\u{0663}\\2\u{ff12}\u{ff13}\")"),
        }
    }
    s
}

/// statements that touch the entries of a generated library
fn touch_library(r: &mut Rng, l: &StandardLibrary) -> String {
    let mut out = String::new();
    for (k, f) in l.globals.iter() {
        let path: Vec<String> = k.split('.').map(|s| if s == "*" { "w".to_string() } else { s.to_string() }).collect();
        let p = path.join(".");
        match r.below(7) {
            5 | 6 => {
                // arguments of every literal kind: each parameter's declared type gets compared and, on a
                // mismatch, printed
                let args: Vec<&str> = (0..r.range(0, 4)).map(|_| *r.pick(&["\"red\"", "'count'", "[[x]]", "1", "nil", "true", "{}", "function() end", "...", "x", "-x", "(\"a b\")", "#x"])).collect();
                out.push_str(&format!("{p}({})\n", args.join(", ")));
            }
            0 => out.push_str(&format!("{p}(1, x)\n")),
            1 => out.push_str(&format!("print({p})\n")),
            2 => out.push_str(&format!("{p}.q = 1\n")),
            3 if path.len() > 1 => out.push_str(&format!("{}:{}(nil, 2, 3)\n", path[..path.len() - 1].join("."), path[path.len() - 1])),
            _ => out.push_str(&format!("local _ = {p}.q.r\n{p}()\n")),
        }
        if let FieldKind::Struct(_) = f.field_kind {
            out.push_str(&format!("print({p}.a, {p}.b.c)\n{p}.a(1)\n"));
        }
    }
    out
}

fn structs_closed(l: &StandardLibrary) -> bool {
    let ok = |m: &std::collections::BTreeMap<String, Field>| {
        m.values().all(|f| match &f.field_kind {
            FieldKind::Struct(s) => l.structs.contains_key(s),
            _ => true,
        })
    };
    ok(&l.globals) && l.structs.values().all(ok)
}

const STDS: [&str; 7] = ["lua51", "lua52", "lua53", "lua54", "luau", "luajit", "roblox"];

pub fn generate(seed: u64, n: usize, thorough: bool) -> Cases {
    let mut cases = Cases::new("C11");
    let mut rng = Rng::new(seed);
    let fx = fixtures();
    // the sweeps are part of every run; `queue` holds (source, library name) pairs that go through the same pipeline below
    let mut queue: Vec<(String, &'static str)> = Vec::new();
    for (ti, t) in SWEEP.iter().enumerate() {
        if let Ok(ast) = full_moon::parse_fallible(t, full_moon::LuaVersion::lua51()).into_result() {
            let ends: Vec<usize> = ast.tokens().map(|tk| tk.token().end_position().bytes()).filter(|e| *e > 0 && *e <= t.len()).collect();
            for (k, e) in ends.iter().enumerate() {
                // quick: every other position per template, alternating the two comment kinds; thorough: all
                if !thorough && ti != 0 && (k + ti) % 2 == 1 {
                    continue;
                }
                let ins = if (k + ti) % 4 < 2 { "--\u{e9}\u{65e5}\n" } else { " --[[\u{e9}\u{1f600}]] " };
                queue.push((format!("{}{}{}", &t[..*e], ins, &t[*e..]), if ti % 2 == 0 { "lua51" } else { "luau" }));
            }
        }
    }
    for k in NUMBER_KEYS.iter() {
        for std in ["lua51", "lua53", "luau"] {
            queue.push((format!("local t = {{ [{k}] = 1, [{k}] = 2, [1] = 3, 4 }}\nprint(t, math.floor({k}), {k} / 0)\nfor i = #t, {k} do end\n"), std));
        }
    }
    let n_queue = queue.len();
    for i in 0..(n + n_queue) {
        let mut r = rng.fork(i as u64);
        let queued = if i >= n { Some(queue[i - n].clone()) } else { None };
        if queued.is_none() && r.chance(1, 4) {
            // (a) try_instead
            let replace: Vec<String> = (0..r.range(1, 3))
                .map(|_| (0..r.range(0, 5)).map(|_| *r.pick(&FMT_ATOMS)).collect::<String>())
                .collect();
            let params: Vec<String> = (0..r.below(4)).map(|_| (*r.pick(&["a", "b.c", "nil", "", "%1"])).to_string()).collect();
            let d = Deprecated { message: String::new(), replace: replace.clone() };
            let out = catch_unwind(AssertUnwindSafe(|| d.try_instead(&params)));
            let term = match &out {
                Err(_) => "Panics".to_string(),
                Ok(None) => "Nothing".to_string(),
                Ok(Some(s)) => format!("(Instead {})", gstr(s)),
            };
            cases.push(
                format!("CTry {} {} {}", glist(replace.iter(), |s| gstr(s)), glist(params.iter(), |s| gstr(s)), term),
                json!({"kind": "try_instead", "replace": replace, "params": params, "result": format!("{out:?}"), "nontrivial": replace.iter().any(|s| s.contains('%'))}),
            );
            continue;
        }
        // (b) whole pipeline
        let generated = queued.is_none() && r.chance(1, 3);
        let (lib, std_name, lib_term) = if generated {
            let o = LibOpts { max_keys: 6, max_depth: 3, removed: r.chance(1, 4), structs: true, versions: false, rich_fields: true };
            let mut l = gen_lib(&mut r, &o);
            if r.chance(1, 2) {
                if let Some(base) = StandardLibrary::from_name("lua51") {
                    l.extend(base);
                }
            }
            let t = glib(&l);
            (l, "generated".to_string(), format!("(Some {t})"))
        } else {
            let name = match &queued { Some((_, std)) => *std, None => *r.pick(&STDS) };
            match load_std(name) {
                Some(l) => (l, name.to_string(), "None".to_string()),
                None => continue,
            }
        };
        let (version, _) = lib.lua_version();
        let mut src = match r.below(10) {
            0 | 1 => (*r.pick(&SPECIAL)).to_string(),
            2..=4 if !fx.is_empty() => r.pick(&fx).clone(),
            _ => gen_program(&mut r).0,
        };
        if let Some((qsrc, _)) = &queued {
            src = qsrc.clone();
        }
        if generated {
            src = format!("{}\n{}", touch_library(&mut r, &lib), src);
        }
        if queued.is_none() && r.chance(1, 2) {
            src = mutate(&mut r, &src);
        }
        if src.len() > (if thorough { 6000 } else { 3000 }) {
            continue;
        }
        let config_text = if queued.is_some() {
            "[lints]\nglobal_usage = \"warn\"\nmust_use = \"warn\"\n[config]\ndeprecated = { allow = [\"table.getn.more\", \"math.*.huge\", \"string.*\"] }\n".to_string()
        } else {
            gen_config(&mut r)
        };
        let config: CheckerConfig<toml::value::Value> = match toml::from_str(&config_text) {
            Ok(c) => c,
            Err(_) => continue,
        };
        // "parses under the dialect of the active standard library"
        let parsed = catch_unwind(AssertUnwindSafe(|| full_moon::parse_fallible(&src, version).into_result()));
        let ast = match parsed {
            Ok(Ok(ast)) => ast,
            Ok(Err(_)) => continue,
            Err(_) => {
                cases.push(
                    format!("CLint [{}]%N {} {} [] true true", src.bytes().map(|b| b.to_string()).collect::<Vec<_>>().join(";"), gstr(&std_name), lib_term),
                    json!({"kind": "parser-panic", "std": std_name, "source": src, "config": config_text, "nontrivial": true}),
                );
                continue;
            }
        };
        let lib2 = lib.clone();
        let run = catch_unwind(AssertUnwindSafe(|| match Checker::<toml::value::Value>::new(config, lib2) {
            Ok(c) => Some(c.test_on(&ast)),
            Err(_) => None,
        }));
        let (diags_term, panicked, desc_d) = match run {
            Ok(None) => continue, // configuration rejected at load time: outside the property
            Ok(Some(ds)) => {
                let t = glist(ds.iter(), |d| {
                    let mut labels = vec![d.diagnostic.primary_label.range];
                    labels.extend(d.diagnostic.secondary_labels.iter().map(|l| l.range));
                    format!(
                        "({}, {})",
                        gstr(d.diagnostic.code),
                        glist(labels.iter(), |(a, b)| format!("({}%nat, {}%nat)", a, b))
                    )
                });
                let dd: Vec<_> = ds.iter().map(|d| json!([d.diagnostic.code, d.diagnostic.primary_label.range.0, d.diagnostic.primary_label.range.1])).collect();
                (t, false, dd)
            }
            Err(_) => ("[]".to_string(), true, vec![]),
        };
        cases.push(
            format!(
                "CLint [{}]%N {} {} {} {} false",
                src.bytes().map(|b| b.to_string()).collect::<Vec<_>>().join(";"),
                gstr(&std_name),
                lib_term,
                diags_term,
                gbool(panicked)
            ),
            json!({"kind": if queued.is_some() { "sweep" } else if generated { "generated-lib" } else { "shipped-lib" }, "std": std_name, "source": src, "config": config_text,
                   "panicked": panicked, "diagnostics": desc_d, "closed": structs_closed(&lib),
                   "library": if generated { serde_yaml::to_string(&lib).unwrap_or_default() } else { String::new() },
                   "nontrivial": !desc_d.is_empty() || panicked}),
        );
    }
    cases
}
