//! Writing case shards (`shard_<k>.v`) plus a JSON-lines sidecar describing each case.
use serde_json::Value;
use std::fs;
use std::io::Write;
use std::path::Path;

pub struct Cases {
    pub module: &'static str, // Coq module under Selene.Corr
    pub items: Vec<(String, Value)>, // (Gallina term, description)
    pub prelude: String,             // definitions shared by the cases of a shard
}

impl Cases {
    pub fn new(module: &'static str) -> Self {
        Cases { module, items: Vec::new(), prelude: String::new() }
    }
    pub fn push(&mut self, term: String, desc: Value) {
        self.items.push((term, desc));
    }
    /// Writes shards; `only` keeps a single case index (replay).
    pub fn write(&self, out: &Path, shards: usize, only: Option<usize>) {
        fs::create_dir_all(out).unwrap();
        let shards = shards.max(1);
        let mut files: Vec<Vec<String>> = vec![Vec::new(); shards];
        let mut side = fs::File::create(out.join("cases.jsonl")).unwrap();
        for (i, (term, desc)) in self.items.iter().enumerate() {
            if let Some(o) = only {
                if o != i {
                    continue;
                }
            }
            files[i % shards].push(format!("({}%N, {})", i, term));
            let mut d = desc.clone();
            d["i"] = Value::from(i);
            writeln!(side, "{}", d).unwrap();
        }
        for (k, items) in files.iter().enumerate() {
            if items.is_empty() {
                let _ = fs::remove_file(out.join(format!("shard_{k}.v")));
                continue;
            }
            let mut f = fs::File::create(out.join(format!("shard_{k}.v"))).unwrap();
            writeln!(f, "From Selene Require Import Corr.{}.", self.module).unwrap();
            writeln!(f, "Open Scope string_scope. Open Scope list_scope.").unwrap();
            if !self.prelude.is_empty() {
                writeln!(f, "{}", self.prelude).unwrap();
            }
            // one definition per case keeps Coq's parser and type checker fast
            for (j, it) in items.iter().enumerate() {
                writeln!(f, "Definition c{j} := {it}.").unwrap();
            }
            let names: Vec<String> = (0..items.len()).map(|j| format!("c{j}")).collect();
            writeln!(f, "Definition cases := [{}].", names.join("; ")).unwrap();
            writeln!(f, "Eval vm_compute in (run cases).").unwrap();
        }
    }
}
